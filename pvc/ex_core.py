"""Executor core: conversions between symbolic value forms, truthiness, record construction."""
from __future__ import annotations
import ast
from typing import Any, List, Optional, Tuple
import z3

from .sv import *
from .state import State, Obligation
from .theory import Theory, san

# canonical class names for dotted spellings met in the source
CLASS_ALIASES = {
    'typing.Sequence': 'Sequence', 'collections.abc.Sequence': 'Sequence', 'typing.Mapping': 'Mapping',
    'collections.abc.Mapping': 'Mapping', 'typing.Iterable': 'Iterable', 'collections.abc.Iterable': 'Iterable',
    'typing.MutableSequence': 'MutableSequence', 'collections.abc.MutableSequence': 'MutableSequence',
    'typing.MutableMapping': 'MutableMapping', 'collections.abc.MutableMapping': 'MutableMapping',
    'collections.abc.Set': 'Set', 'typing.AbstractSet': 'Set', 'collections.abc.MutableSet': 'MutableSet',
    'typing.Tuple': 'tuple', 'typing.List': 'list', 'typing.Dict': 'dict', 'typing.Set': 'set',
    're.Pattern': 'Pattern', 'typing.Pattern': 'Pattern', 're.error': 're.error',
    'datetime.datetime': 'datetime', 'datetime.date': 'date', 'datetime.time': 'time',
    'decimal.Decimal': 'Decimal', 'fractions.Fraction': 'Fraction', 'os.PathLike': 'PathLike',
    'pathlib.PurePath': 'PurePath', 'enum.Enum': 'Enum', 'enum.Flag': 'Flag',
    'traceback.TracebackException': 'TracebackException', 'typing.TypeVar': 'TypeVar',
    'typing.ForwardRef': 'ForwardRef', 'dataclasses.FrozenInstanceError': 'FrozenInstanceError',
    'io.StringIO': 'StringIO', 'io.IOBase': 'IOBase', 'io.TextIOBase': 'TextIOBase', 'io.TextIOWrapper': 'TextIOWrapper',
    'io.BufferedIOBase': 'BufferedIOBase', 'typing.BinaryIO': 'BinaryIO', 'typing.TextIO': 'TextIO',
    'collections.Counter': 'Counter', 'collections.defaultdict': 'defaultdict', 'collections.deque': 'deque',
    'inspect.Parameter': 'Parameter', 'inspect.Signature': 'Signature',
    'typing.Hashable': 'Hashable', 'typing.Generic': 'Generic', 'typing.Protocol': 'Protocol',
    'builtins.IOError': 'OSError', 'IOError': 'OSError',
}
BUILTIN_CLASSES = {'int', 'float', 'complex', 'str', 'bytes', 'bytearray', 'bool', 'list', 'tuple', 'dict', 'set',
                   'frozenset', 'type', 'object'}
BUILTIN_EXC = {'Exception', 'BaseException', 'KeyError', 'IndexError', 'LookupError', 'TypeError', 'ValueError',
               'AttributeError', 'OverflowError', 'ArithmeticError', 'ZeroDivisionError', 'AssertionError',
               'RuntimeError', 'NotImplementedError', 'StopIteration', 'OSError', 'ImportError', 'RecursionError',
               'UnicodeError', 'IOError'}
BUILTIN_FUNCS = {'len', 'isinstance', 'issubclass', 'getattr', 'setattr', 'hasattr', 'delattr', 'tuple', 'list',
                 'dict', 'set', 'frozenset', 'iter', 'next', 'enumerate', 'zip', 'map', 'filter', 'reversed', 'range',
                 'all', 'any', 'sum', 'max', 'min', 'repr', 'str', 'bool', 'int', 'id', 'hash', 'type', 'print',
                 'callable', 'super', 'sorted', 'abs', 'open', 'object', 'float', 'isfinite', 'vars'}


def _consts_of(t):
    out, stack, seen = set(), [t], set()
    while stack:
        x = stack.pop()
        if x.get_id() in seen:
            continue
        seen.add(x.get_id())
        if z3.is_app(x):
            if x.num_args() == 0:
                out.add(str(x))
            stack.extend(x.children())
        elif z3.is_quantifier(x):
            stack.append(x.body())
    return out


class Core:
    th: Theory

    # -- construction helpers ------------------------------------------------
    def val(self, term, **kw) -> VVal:
        return VVal(term, **kw)

    def none(self) -> VVal:
        return VVal(self.th.NoneV, py=('const', None))

    def const_sv(self, value) -> SV:
        th = self.th
        if value is None:
            return self.none()
        if value is True:
            return VBool(z3.BoolVal(True))
        if value is False:
            return VBool(z3.BoolVal(False))
        if isinstance(value, int):
            return VInt(z3.IntVal(value))
        if isinstance(value, str):
            return VVal(th.strc(value), kind='str', py=('const', value))
        if value is Ellipsis:
            return VVal(th.EllipsisV, py=('const', Ellipsis))
        if isinstance(value, float):
            return VVal(th.const('float:' + repr(value)), py=('const', value))
        if isinstance(value, bytes):
            return VVal(th.const('bytes:' + repr(value)), py=('const', value))
        raise OutOfSubset(f'constant {value!r}')

    def fresh_val(self, hint='v', **kw) -> VVal:
        return VVal(self.th.fresh(hint), **kw)

    # -- SV -> z3 Val -----------------------------------------------------------
    def toVal(self, sv: SV, st: State):
        th = self.th
        if isinstance(sv, VVal):
            return sv.term
        if isinstance(sv, VBool):
            if z3.is_true(sv.b):
                return th.TrueV
            if z3.is_false(sv.b):
                return th.FalseV
            return z3.If(sv.b, th.TrueV, th.FalseV)
        if isinstance(sv, VInt):
            t = th.mk_int(sv.i)
            st.add(th.int_of(t) == sv.i, th.isc('int')(t), z3.Not(th.isc('bool')(t)), t != th.NoneV)
            return t
        if isinstance(sv, VTuple):
            arr = th.dflt_seq
            for k, it in enumerate(sv.items):
                arr = z3.Store(arr, k, self.toVal(it, st))
            n = z3.IntVal(len(sv.items))
            t = (th.mk_list if sv.is_list else th.mk_tuple)(arr, n)
            st.add(th.vlen(t) == n, th.sq_arr(t) == arr, th.isc('list' if sv.is_list else 'tuple')(t), t != th.NoneV,
                   th.truthy(t) == z3.BoolVal(len(sv.items) > 0))
            return t
        if isinstance(sv, VListB):
            t = th.mk_list(sv.arr, sv.n)
            st.add(th.vlen(t) == sv.n, th.sq_arr(t) == sv.arr, th.isc('list')(t), t != th.NoneV,
                   th.truthy(t) == (sv.n > 0))
            return t
        if isinstance(sv, VMapB):
            t = th.mk_map(sv.has, sv.get)
            st.add(th.m_hasA(t) == sv.has, th.m_getA(t) == sv.get, th.isc('dict')(t), t != th.NoneV,
                   th.vlen(t) == th.card(sv.has), *self.card_facts(sv.has),
                   th.truthy(t) == (th.card(sv.has) > 0))
            return t
        if isinstance(sv, VSetB):
            t = th.mk_set(sv.has)
            st.add(th.s_hasA(t) == sv.has, th.isc('set')(t), t != th.NoneV, th.vlen(t) == th.card(sv.has),
                   *self.card_facts(sv.has), th.truthy(t) == (th.card(sv.has) > 0))
            return t
        if isinstance(sv, VClass):
            return th.clsc(sv.name)
        if isinstance(sv, VExc):
            return sv.val
        if isinstance(sv, VFunc):
            # a closure escaping as a value: opaque callable, identified by its source position
            key = f"fn:{sv.module}:{sv.qual}:{getattr(sv.node, 'lineno', 0)}:{getattr(sv.node, 'col_offset', 0)}"
            if not sv.env and sv.frame is None and sv.self_sv is None:
                # a module-level function: one stable value
                c = th.const(key)
                if not hasattr(self, 'fn_by_const'):
                    self.fn_by_const = {}
                self.fn_by_const[c.decl().name()] = sv
                return c
            envkey = getattr(sv, '_envkey', None)
            if envkey is None:
                # the same lambda text closed over different values is a different function value
                self._closure_ctr = getattr(self, '_closure_ctr', 0) + 1
                envkey = self._closure_ctr
                object.__setattr__(sv, '_envkey', envkey)
            c = th.const(f'{key}#{self.cur_func_key}#{envkey}')
            self.closure_identity(sv, c, st)
            self.summarize_closure(sv, c)
            return c
        if isinstance(sv, VBuiltin):
            c = th.const('builtin:' + sv.name)
            if sv.name == 'math.isfinite' and 'isfinite' not in self.func_summ:
                self.func_summ.add('isfinite')
                a = z3.Const('a!fin', th.Val)
                self.standing.append(z3.ForAll([a], z3.And(
                    th.call(1)(c, a) == z3.If(th.fn('isfinite', th.Val, th.B)(a), th.TrueV, th.FalseV),
                    z3.Not(th.craises(1)(c, a)))))
            return c
        if isinstance(sv, VModule):
            return th.const('module:' + sv.name)
        if isinstance(sv, VGen):
            arr = z3.Lambda([sv.idx], z3.If(z3.And(sv.idx >= 0, sv.idx < sv.n), sv.val, th.dflt))
            t = th.mk_gen(arr, sv.n)
            return t
        if isinstance(sv, VIter):
            if sv.static is not None:
                return self.toVal(VTuple(tuple(sv.static)), st)
            t = getattr(sv, '_val', None)
            if t is None:
                # an iteration source escaping as a value: opaque sequence with the same elements
                t = th.fresh('iterval')
                object.__setattr__(sv, '_val', t)
                i = z3.Int('i!iv')
                s0 = State(dict(st.env), [])
                ev = self.toVal(sv.at(i, s0), s0)
                st.add(th.vlen(t) >= 0, t != th.NoneV)
                if sv.keep is None:
                    st.add(th.vlen(t) == sv.n)
                    st.add(z3.ForAll([i], z3.Implies(z3.And(i >= 0, i < sv.n), z3.And(*(s0.pc + [z3.Select(th.sq_arr(t), i) == ev])))))
            return t
        raise OutOfSubset(f'cannot reify {type(sv).__name__}')

    def closure_identity(self, f, c, st):
        """Definitional facts about a closure value: which function text it is (closure_code) and what each free variable it
        reads was bound to when it was created (closure_free_<name>). Sound as long as those variables are not rebound later."""
        key = 'ident:' + str(c)
        if key in self.func_summ:
            return
        self.func_summ.add(key)
        th = self.th
        if not hasattr(self, '_key_by_node'):
            self._key_by_node = {id(fi.node): fi.key for fi in self.idx.funcs.values()}
        self.standing.append(th.fn('closure_code', th.Val, th.Val)(c) == th.strc(self._key_by_node.get(id(f.node), f'{f.module}:{f.qual}')))
        if 'function' in th.lat['sub'] and isinstance(f.node, (ast.FunctionDef, ast.Lambda)) and f.self_sv is None:
            self.standing.append(th.isc('function')(c))          # a def / lambda evaluates to a plain function object (identity equality)
        if not f.env or st is None:
            return
        a = f.node.args
        bound = {p.arg for p in a.posonlyargs + a.args + a.kwonlyargs} | ({a.vararg.arg} if a.vararg else set()) | ({a.kwarg.arg} if a.kwarg else set())
        body = f.node.body if isinstance(f.node.body, list) else [f.node.body]
        names = sorted({n.id for b in body for n in ast.walk(b) if isinstance(n, ast.Name) and isinstance(n.ctx, ast.Load)} - bound)
        for nm in names:
            v = f.env.get(nm)
            if isinstance(v, (VVal, VBool, VInt, VClass)) or (isinstance(v, VTuple) and all(isinstance(x, (VVal, VClass)) for x in v.items)):
                try:
                    self.standing.append(th.fn('closure_free_' + nm, th.Val, th.Val)(c) == self.toVal(v, st))
                except OutOfSubset:
                    pass

    def summarize_closure(self, f, c):
        """Definitional axioms for a closure that escapes as a value: calling the value behaves as its body.
        (forall args.  path-condition -> call(c, args) == value / craises(c, args))"""
        key = str(c)
        if key in self.func_summ or self.depth > 6:
            return
        self.func_summ.add(key)
        th = self.th
        a = f.node.args
        if a.vararg is not None or a.kwarg is not None:
            return
        params = [p.arg for p in a.posonlyargs + a.args]
        kwonly = sorted(k.arg for k in a.kwonlyargs)
        if len(params) > 3 or len(kwonly) > 2:
            return
        # summarised for the full positional arity with every keyword-only parameter passed by name
        qs = [z3.Const(f'{p}!q{len(self.func_summ)}', th.Val) for p in params + kwonly]
        suffix = ('_kw_' + '_'.join(kwonly)) if kwonly else ''
        nq = len(qs)
        sig = [th.Val] * (nq + 1)
        f_call = lambda *xs: th.fn(f'call_{nq}{suffix}', *sig, th.Val)(*xs)
        f_raises = lambda *xs: th.fn(f'craises_{nq}{suffix}', *sig, th.B)(*xs)
        f_exc = lambda *xs: th.fn(f'cexc_{nq}{suffix}', *sig, th.Exc)(*xs)
        st0 = State(dict(f.env) if f.env else {}, list(getattr(f, '_prefacts', [])))
        if f.self_sv is not None:
            params = params[1:]
            if len(params) > 3:
                return
            qs = [z3.Const(f'{p}!q{len(self.func_summ)}', th.Val) for p in params + kwonly]
            nq = len(qs)
            sig = [th.Val] * (nq + 1)
        saved = (self.obligations, self.spec_mode, self.loop_counter, th.fresh_log, self.lemma_sink)
        self.obligations = []          # obligations inside an escaping closure are not obligations of this function
        th.fresh_log = []
        self.lemma_sink = []
        try:
            self.spec_mode = False
            outs = self.inline_call(f, [VVal(q) for q in qs[:len(params)]], {k: VVal(q) for k, q in zip(kwonly, qs[len(params):])}, st0, None,
                                    self_sv=f.self_sv)
            parts = []
            n = len(qs)
            fresh_names = None

            def mentions_invented(t):
                nonlocal fresh_names
                fresh_names = {str(x) for x in th.fresh_log}
                return bool(_consts_of(t) & fresh_names)
            for r, s in outs:
                if isinstance(r, Raised):
                    cond = z3.And(s.pc) if s.pc else z3.BoolVal(True)
                    cons = [f_raises(c, *qs)]
                    if not mentions_invented(r.exc.cls):
                        cons.append(f_exc(c, *qs) == r.exc.cls)
                    parts.append(z3.Implies(cond, z3.And(cons)))
                else:
                    v = self.toVal(r, s)
                    cond = z3.And(s.pc) if s.pc else z3.BoolVal(True)
                    cons = [z3.Not(f_raises(c, *qs))]
                    if not mentions_invented(v):
                        # (a result that depends on an invented symbol is left unconstrained: weaker, still sound)
                        cons.append(f_call(c, *qs) == v)
                    parts.append(z3.Implies(cond, z3.And(cons)))
            fresh = list(th.fresh_log)
            if False:
                pass
            elif parts:
                # one axiom per outcome (and per lemma), each binding only the invented symbols it mentions, so that
                # the solver's triggers do not have to match all of them at once
                for part in parts + list(self.lemma_sink):
                    syms = _consts_of(part)
                    bound = qs + [x for x in fresh if str(x) in syms]
                    if not bound:
                        self.standing.append(part)
                    elif len(bound) == len(qs):
                        self.standing.append(z3.ForAll(bound, part, patterns=[f_call(c, *qs), f_raises(c, *qs)]))
                    else:
                        self.standing.append(z3.ForAll(bound, part))
        except OutOfSubset as e:
            self.notes.append(f'closure {key} not summarised: {e}')
        finally:
            self.obligations, self.spec_mode, self.loop_counter, th.fresh_log, self.lemma_sink = saved

    def card_facts(self, has, depth=0):
        th = self.th
        facts = [th.card(has) >= 0, (th.card(has) == 0) == (has == th.empty_set)]
        # structural cardinality of small explicit stores: card(store(b,k,true)) = card(b) + [k not in b]
        if depth < 8 and z3.is_app(has) and has.decl().kind() == z3.Z3_OP_STORE:
            base, k, v = has.arg(0), has.arg(1), has.arg(2)
            if z3.is_true(v):
                facts.append(th.card(has) == th.card(base) + z3.If(z3.Select(base, k), 0, 1))
                facts.extend(self.card_facts(base, depth + 1))
            elif z3.is_false(v):
                facts.append(th.card(has) == th.card(base) - z3.If(z3.Select(base, k), 1, 0))
                facts.extend(self.card_facts(base, depth + 1))
        return facts

    # -- truthiness -------------------------------------------------------------
    def truth(self, sv: SV, st: State):
        th = self.th
        if isinstance(sv, VBool):
            return sv.b
        if isinstance(sv, VInt):
            return sv.i != 0
        if isinstance(sv, VTuple):
            return z3.BoolVal(len(sv.items) > 0)
        if isinstance(sv, VListB):
            return sv.n > 0
        if isinstance(sv, (VMapB, VSetB)):
            st.add(*self.card_facts(sv.has))
            return th.card(sv.has) > 0
        if isinstance(sv, (VClass, VFunc, VBuiltin, VModule)):
            return z3.BoolVal(True)
        if isinstance(sv, VVal):
            if sv.py is not None:
                return z3.BoolVal(bool(sv.py[1]))
            if sv.kind in ('map', 'seq', 'set', 'str'):
                return th.vlen(sv.term) > 0
            if sv.kind in ('conv', 'callable', 'rec'):
                return z3.BoolVal(True)
            return th.truthy(sv.term)
        raise OutOfSubset(f'truth of {type(sv).__name__}')

    def toInt(self, sv: SV, st: State):
        if isinstance(sv, VInt):
            return sv.i
        if isinstance(sv, VBool):
            return z3.If(sv.b, 1, 0)
        if isinstance(sv, VVal):
            return self.th.int_of(sv.term)
        raise OutOfSubset(f'int of {type(sv).__name__}')

    # -- equality (Python == / is modelled as logical equality on abstract values) ----
    def eq(self, a: SV, b: SV, st: State):
        if isinstance(a, VInt) and isinstance(b, VInt):
            return a.i == b.i
        if isinstance(a, VBool) and isinstance(b, VBool):
            return a.b == b.b
        if isinstance(a, VTuple) and isinstance(b, VTuple):
            if len(a.items) != len(b.items) or a.is_list != b.is_list:
                return z3.BoolVal(False)
            return z3.And([self.eq(x, y, st) for x, y in zip(a.items, b.items)]) if a.items else z3.BoolVal(True)
        if isinstance(a, VClass) and isinstance(b, VClass):
            return z3.BoolVal(a.name == b.name)
        if isinstance(a, VInt) and isinstance(b, VVal):
            return self.toVal(a, st) == b.term
        return self.toVal(a, st) == self.toVal(b, st)

    # -- records (error nodes, exceptions, ...) -----------------------------------
    def record_fields(self, cname: str) -> Optional[List[Tuple[str, dict]]]:
        if cname in self.RECORDS:
            return self.RECORDS[cname]
        ci = self.idx.classes.get(cname)
        if ci is not None and ci.is_dataclass and ci.dataclass_init:
            fl = [(n, m) for (n, m) in self.idx.dataclass_fields(cname)]
            self.RECORDS[cname] = fl
            return fl
        return None

    def make_record(self, cname: str, argvals: List[Any], st: State) -> VVal:
        """argvals: z3 Val terms for every field in declaration order."""
        th = self.th
        fl = self.record_fields(cname)
        t = th.rec(cname, len(fl))(*argvals)
        facts = [t != th.NoneV, th.isc(cname)(t), th.truthy(t)]
        for (n, _m), a in zip(fl, argvals):
            facts.append(th.fld(n)(t) == a)
        st.add(*facts)
        return VVal(t, fresh=True, kind='rec', cls=cname)
