"""z3 vocabulary of the semantic model (DESIGN.md section 2.3).

Objects are an uninterpreted sort Val.  Class membership is one predicate per named class; the facts
relating those predicates (bool < int, str < Sequence, int/str lay-out conflict, which classes are
hashable, which attributes a class guarantees) are NOT hand-written: they come from lattice_dump.py,
executed under the repository's interpreter at the start of every run.
"""
from __future__ import annotations
import json
import os
import re
import subprocess
import z3

REPO_PY = os.environ.get('PVC_REPO_PY', '/venv/bin/python')

_HERE = os.path.dirname(os.path.abspath(__file__))


def load_lattice(repo: str) -> dict:
    out = subprocess.run([REPO_PY, os.path.join(_HERE, 'lattice_dump.py'), repo],
                         capture_output=True, text=True, timeout=120,
                         env={**os.environ, 'PYTHONPATH': repo, 'PYTHONDONTWRITEBYTECODE': '1'})
    if out.returncode != 0:
        raise RuntimeError('lattice_dump failed (is the tree importable?):\n' + out.stderr[-2000:])
    return json.loads(out.stdout)


def san(name: str) -> str:
    return re.sub(r'[^A-Za-z0-9_]', '_', name)


# classes whose instances are certainly hashable regardless of content / certainly not
HASH_POS = ['NoneType', 'bool', 'int', 'float', 'complex', 'str', 'bytes', 'Decimal', 'Fraction', 'datetime',
            'date', 'time', 'Pattern', 'PurePath', 'type', 'frozenset', 'Enum']
HASH_NEG = ['list', 'dict', 'set', 'bytearray', 'deque', 'Counter', 'defaultdict']

# the interchange "kind" partition assumed pairwise disjoint beyond what lay-out conflicts give
# (a user class that is both a Sequence and a Mapping is excluded; stated as assumption A-kinds)
ASSUMED_DISJOINT = [('Sequence', 'Mapping'), ('Sequence', 'Set'), ('Mapping', 'Set'),
                    ('NoneType', 'Sequence'), ('NoneType', 'Mapping'),
                    ('int', 'Sequence'), ('int', 'Mapping'), ('float', 'Sequence'), ('float', 'Mapping'),
                    ('complex', 'Sequence'), ('complex', 'Mapping'), ('str', 'Mapping'), ('bytes', 'Mapping'),
                    ('bytearray', 'Mapping'), ('ErrorNode', 'NoneType'),
                    ('PaneBase', 'Sequence'), ('PaneBase', 'Mapping'),
                    ('Pattern', 'Sequence'), ('Pattern', 'Mapping'), ('Converter', 'Sequence'),
                    ('Converter', 'Mapping'), ('Converter', 'str'), ('Condition', 'str'),
                    ('TextIOWrapper', 'str'), ('IOBase', 'str'), ('IOBase', 'PurePath')]


class Theory:
    def __init__(self, lattice: dict):
        self.lat = lattice
        self.Val = z3.DeclareSort('Val')
        self.I = z3.IntSort()
        self.B = z3.BoolSort()
        V, I, B = self.Val, self.I, self.B
        self.exc_names = [n for n in lattice['exc_sub'].keys() if n != 'BaseException'] + ['OtherException']
        self.Exc, exc_consts = z3.EnumSort('Exc', [san(n) for n in self.exc_names])
        self.exc = dict(zip(self.exc_names, exc_consts))
        self.SetA = z3.ArraySort(V, B)
        self.MapA = z3.ArraySort(V, V)
        self.SeqA = z3.ArraySort(I, V)

        self.consts = {}     # key -> Val const (None, True, str literals, ...)
        self.used_cls = set()
        self.used_attrs = set()
        self._funcs = {}
        self.NoneV = self.const('None')
        self.TrueV = self.const('True')
        self.FalseV = self.const('False')
        self.NotImplV = self.const('NotImplemented')
        self.EllipsisV = self.const('Ellipsis')
        self.dflt = self.const('$dflt')

        self.vlen = self.fn('vlen', V, I)
        self.sq_arr = self.fn('sq_arr', V, self.SeqA)
        self.m_hasA = self.fn('m_hasA', V, self.SetA)
        self.m_getA = self.fn('m_getA', V, self.MapA)
        self.m_key = self.fn('m_key', V, I, V)
        self.m_idx = self.fn('m_idx', V, V, I)
        self.s_hasA = self.fn('s_hasA', V, self.SetA)
        self.mk_int = self.fn('mk_int', I, V)
        self.int_of = self.fn('int_of', V, I)
        self.truthy = self.fn('truthy', V, B)
        self.type_of = self.fn('type_of', V, V)
        self.hashable = self.fn('hashable', V, B)
        self.acc = self.fn('acc', V, V, B)
        self.out = self.fn('out', V, V, V)
        self.err = self.fn('err', V, V, V)
        self.ser = self.fn('ser', V, V, V)
        self.expd = self.fn('expd', V, V, V)
        self.isinst_dyn = self.fn('isinst_dyn', V, V, B)
        self.issub_dyn = self.fn('issub_dyn', V, V, B)
        self.seq_contains = self.fn('seq_contains', V, V, B)
        self.card = self.fn('card', self.SetA, I)
        self.mk_map = self.fn('mk_map', self.SetA, self.MapA, V)
        self.mk_set = self.fn('mk_set', self.SetA, V)
        self.mk_list = self.fn('mk_list', self.SeqA, I, V)
        self.mk_tuple = self.fn('mk_tuple', self.SeqA, I, V)
        self.mk_gen = self.fn('mk_gen', self.SeqA, I, V)
        self.pyeq = None  # Python == is modelled as logical equality (assumption A-eq)
        self.empty_set = z3.K(V, z3.BoolVal(False))
        self.dflt_map = z3.K(V, self.dflt)
        self.dflt_seq = z3.K(I, self.dflt)
        self._ctr = 0
        self.fresh_log = None

    # ------------------------------------------------------------------
    def fn(self, name, *sig):
        k = (name, tuple(str(s) for s in sig))
        if k not in self._funcs:
            self._funcs[k] = z3.Function(name, *sig)
        return self._funcs[k]

    def const(self, key: str):
        if key not in self.consts:
            self.consts[key] = z3.Const('c!' + san(key) + '!' + str(len(self.consts)), self.Val)
        return self.consts[key]

    def strc(self, s: str):
        return self.const('str:' + s)

    def str_of_const(self, term):
        """Inverse of strc for a constant term (None if the term is not a string literal constant)."""
        for k, c in self.consts.items():
            if k.startswith('str:') and c.eq(term):
                return k[4:]
        return None

    def clsc(self, name: str):
        """Val constant denoting a class object."""
        return self.const('cls:' + name)

    def fresh(self, hint='v', sort=None):
        self._ctr += 1
        c = z3.Const(f'{san(hint)}!{self._ctr}', sort if sort is not None else self.Val)
        if self.fresh_log is not None:
            self.fresh_log.append(c)
        return c

    def isc(self, cname: str):
        self.used_cls.add(cname)
        return self.fn('isa_' + san(cname), self.Val, self.B)

    def fld(self, name: str):
        return self.fn('fld_' + san(name), self.Val, self.Val)

    def has_attr(self, name: str):
        self.used_attrs.add(name)
        return self.fn('hasattr_' + san(name), self.Val, self.B)

    def meth(self, name: str, nargs: int):
        return self.fn(f'meth_{san(name)}_{nargs}', *([self.Val] * (nargs + 1)), self.Val)

    def call(self, n):
        return self.fn(f'call_{n}', *([self.Val] * (n + 1)), self.Val)

    def craises(self, n):
        return self.fn(f'craises_{n}', *([self.Val] * (n + 1)), self.B)

    def cexc(self, n):
        return self.fn(f'cexc_{n}', *([self.Val] * (n + 1)), self.Exc)

    def cexcv(self, n):
        return self.fn(f'cexcv_{n}', *([self.Val] * (n + 1)), self.Val)

    def rec(self, cname, nfields):
        return self.fn('mk_' + san(cname), *([self.Val] * nfields), self.Val)

    # ------------------------------------------------------------------
    def exc_catches(self, handler: str, cls_term):
        """Formula: an exception whose class is cls_term is caught by `except handler`."""
        subs = []
        for n in self.exc_names:
            if n == 'OtherException':
                if handler in ('Exception', 'BaseException'):
                    subs.append(n)
            elif self.lat['exc_sub'][n].get(handler, False):
                subs.append(n)
        if z3.is_app(cls_term) and cls_term.num_args() == 0 and cls_term.decl().kind() == z3.Z3_OP_DT_CONSTRUCTOR:
            name = str(cls_term)
            return z3.BoolVal(any(san(s) == name for s in subs))
        return z3.Or([cls_term == self.exc[s] for s in subs]) if subs else z3.BoolVal(False)

    def known_classes(self):
        return list(self.lat['sub'].keys())

    def axioms(self, lean=False):
        """EPR-style universal facts (no function symbols under the quantifier)."""
        V = self.Val
        v = z3.Const('v', V)
        ax = []
        sub = self.lat['sub']
        used = set(c for c in self.used_cls if c in sub) | {'NoneType', 'bool', 'int', 'str', 'type'}
        for c in list(used):
            used |= {b for b in sub[c] if sub[c][b]}
        used_attrs = set(self.used_attrs)
        names = [n for n in sub.keys() if n in used]
        for a in names:
            for b in names:
                if a != b and sub[a][b]:
                    ax.append(z3.ForAll([v], z3.Implies(self.isc(a)(v), self.isc(b)(v))))
        conf = self.lat['conflict']
        done = set()
        for a in names:
            for b in names:
                if a < b and (conf[a][b] or (a, b) in ASSUMED_DISJOINT or (b, a) in ASSUMED_DISJOINT):
                    # skip if implied by a superclass pair? keep all: cheap
                    done.add((a, b))
                    ax.append(z3.ForAll([v], z3.Not(z3.And(self.isc(a)(v), self.isc(b)(v)))))
        for a in HASH_POS:
            ax.append(z3.ForAll([v], z3.Implies(self.isc(a)(v), self.hashable(v))))
        for a in HASH_NEG:
            ax.append(z3.ForAll([v], z3.Implies(self.isc(a)(v), z3.Not(self.hashable(v)))))
        for a in names:
            for at in self.lat['attrs'][a]:
                if at not in used_attrs:
                    continue
                ax.append(z3.ForAll([v], z3.Implies(self.isc(a)(v), self.has_attr(at)(v))))
        # definitional facts of the int embedding and of lengths (also instantiated ground where terms are built)
        if not lean:
            # (kept out of the lean axiom set: these two make counter-model construction much harder)
            iv = z3.Int('iv')
            ax.append(z3.ForAll([iv], z3.And(self.int_of(self.mk_int(iv)) == iv, self.isc('int')(self.mk_int(iv)),
                                             z3.Not(self.isc('bool')(self.mk_int(iv))), self.mk_int(iv) != self.NoneV),
                                patterns=[self.mk_int(iv)]))
            ax.append(z3.ForAll([v], self.vlen(v) >= 0, patterns=[self.vlen(v)]))
        # singletons and literals
        ax.append(self.isc('NoneType')(self.NoneV))
        ax.append(z3.ForAll([v], z3.Implies(self.isc('NoneType')(v), v == self.NoneV)))
        ax.append(self.isc('bool')(self.TrueV))
        ax.append(self.isc('bool')(self.FalseV))
        ax.append(z3.ForAll([v], z3.Implies(self.isc('bool')(v), z3.Or(v == self.TrueV, v == self.FalseV))))
        ax.append(self.truthy(self.TrueV))
        ax.append(z3.Not(self.truthy(self.FalseV)))
        ax.append(z3.Not(self.truthy(self.NoneV)))
        ax.append(self.int_of(self.TrueV) == 1)
        ax.append(self.int_of(self.FalseV) == 0)
        for k, c in self.consts.items():
            if k.startswith('str:'):
                ax.append(self.isc('str')(c))
                ax.append(self.truthy(c) == z3.BoolVal(len(k) > 4))
                ax.append(self.vlen(c) == len(k) - 4)
            elif k.startswith('cls:'):
                ax.append(self.isc('type')(c))
                ax.append(self.truthy(c))
        if len(self.consts) > 1:
            ax.append(z3.Distinct(*self.consts.values()))
        return ax
