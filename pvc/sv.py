"""Symbolic values manipulated by the executor (all immutable; mutation = rebinding)."""
from __future__ import annotations
import ast
from dataclasses import dataclass, field
from typing import Any, Callable, Dict, List, Optional, Tuple
import z3


class SV:
    pass


@dataclass(frozen=True)
class VVal(SV):
    term: Any                       # z3 Val
    fresh: bool = False             # not reachable from an input (result of ctor/display/copy)
    kind: Optional[str] = None      # 'map' | 'seq' | 'set' | 'conv' | 'callable' | 'str' | 'rec' | None
    py: Any = None                  # python constant, if statically known (('const', value))
    cls: Optional[str] = None       # statically known exact class (for records)


@dataclass(frozen=True)
class VBool(SV):
    b: Any                          # z3 Bool


@dataclass(frozen=True)
class VInt(SV):
    i: Any                          # z3 Int


@dataclass(frozen=True)
class VTuple(SV):
    items: Tuple[SV, ...]           # statically known length (fresh immutable tuple / list display)
    is_list: bool = False


@dataclass(frozen=True)
class VMapB(SV):                    # dict under construction (fresh)
    has: Any
    get: Any
    # insertion-ordered keys are not tracked for builders


@dataclass(frozen=True)
class VSetB(SV):
    has: Any


@dataclass(frozen=True)
class VListB(SV):
    arr: Any
    n: Any


@dataclass(frozen=True)
class VFunc(SV):
    node: Any                       # ast.Lambda / ast.FunctionDef
    env: Any                        # defining environment (dict) - captured by reference
    module: str
    qual: str = '<lambda>'
    self_sv: Any = None             # bound receiver for methods
    cls: Optional[str] = None
    frame: Any = None               # id of the defining function activation (closures see its live variables)


@dataclass(frozen=True)
class VClass(SV):
    name: str                       # canonical class name ('Sequence', 'ParseInterrupt', 'WrongTypeError', ...)


@dataclass(frozen=True)
class VBuiltin(SV):
    name: str                       # 'len', 'isinstance', 're.compile', ...
    recv: Any = None                # bound receiver for method-style builtins


@dataclass(frozen=True)
class VModule(SV):
    name: str


@dataclass(frozen=True)
class VIter(SV):
    """Iteration source: length n (z3 Int) and element function at(i z3 Int, st) -> SV.
    `keep` (optional) i -> z3 Bool filters elements (filter()/comprehension-if)."""
    n: Any
    at: Callable
    keep: Optional[Callable] = None
    static: Optional[Tuple[SV, ...]] = None     # statically known elements (unrolled)
    lazy_gen: Any = None                        # (gen summary) see Exec.comprehension


@dataclass(frozen=True)
class VGen(SV):
    """Summary of a generator expression / comprehension (L3 route)."""
    n: Any                          # number of source elements
    idx: Any                        # bound index variable (z3 Int const)
    ok: Any                         # z3 Bool in idx: element evaluates normally
    val: Any                        # z3 Val in idx: element value when ok
    excs: Tuple[Any, ...]           # tuple of (cond z3 Bool in idx, VExc-like tuple (cls, val, origin))
    keep: Any = None                # z3 Bool in idx or None
    facts: Tuple[Any, ...] = ()     # facts in idx, valid for all idx in range


@dataclass(frozen=True)
class VExc(SV):
    cls: Any                        # z3 Exc term
    val: Any                        # z3 Val term (exception object)
    origin: str = ''


@dataclass(frozen=True)
class Raised:
    exc: VExc


class OutOfSubset(Exception):
    """The function uses something the engine does not interpret: verdict 'undecided', never a violation."""
    def __init__(self, msg, node=None):
        if node is not None and hasattr(node, 'lineno'):
            msg = f"{msg} (line {node.lineno}: {ast.unparse(node)[:80]})"
        super().__init__(msg)


class ClauseNotApplicable(Exception):
    """a postcondition mentions final_<local> and that local is not bound on this path"""
