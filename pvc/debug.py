"""Debug helper: dump the full VC of one obligation."""
import sys, z3
from .run import _init, _G
from .theory import load_lattice
from .engine import Engine, Sidecar

def main():
    repo, key, oid = sys.argv[1], sys.argv[2], sys.argv[3]
    import os
    cdir = os.path.join(os.path.dirname(os.path.dirname(os.path.abspath(__file__))), 'contracts')
    _init(repo, cdir, load_lattice(repo))
    side = _G['side']
    eng = Engine(_G['idx'], _G['lat'], side)
    con = side.contracts.get(key) or side.lemmas.get(key)
    eng.verify(con)
    for ob in eng.obligations:
        if oid in ob.oid:
            print('=====', ob.oid, ob.origin)
            for f in ob.pc:
                print('PC:', f)
            for f in eng.standing:
                print('STANDING:', f)
            print('NOTES:', eng.notes)
            print('GOAL:', ob.goal)
            eng.solve(ob)
            print(ob.verdict, ob.reason)
main()
