"""Expression evaluation.  ev(node, st) -> list of (SV | Raised, State)."""
from __future__ import annotations
import ast
from typing import Any, List, Tuple
import z3

from .sv import *
from .state import State, Obligation
from .ex_core import CLASS_ALIASES, BUILTIN_CLASSES, BUILTIN_EXC, BUILTIN_FUNCS


class Expr:
    # ---- plumbing ---------------------------------------------------------------
    def bind(self, results, f):
        out = []
        for r, st in results:
            if isinstance(r, Raised):
                out.append((r, st))
            else:
                out.extend(f(r, st))
        return out

    def evs(self, nodes, st):
        """Evaluate nodes left to right -> list of (list[SV] | Raised, st)."""
        results = [([], st)]
        for n in nodes:
            nxt = []
            for acc, s in results:
                if isinstance(acc, Raised):
                    nxt.append((acc, s))
                    continue
                for r, s2 in self.ev(n, s):
                    if isinstance(r, Raised):
                        nxt.append((r, s2))
                    else:
                        nxt.append((acc + [r], s2))
            results = nxt
        return results

    def raise_(self, exc_name: str, st: State, origin: str, val=None):
        th = self.th
        e = VExc(th.exc[exc_name], val if val is not None else th.fresh('exc_' + exc_name), origin)
        return (Raised(e), st)

    def outcomes(self, st: State, alts):
        """alts: list of (cond z3 Bool, result-or-('raise', name, origin)). Forks one state per feasible alt."""
        out = []
        for cond, res in alts:
            if z3.is_false(cond):
                continue
            s = st.fork() if len(alts) > 1 else st
            if not z3.is_true(cond):
                s.add(cond)
            if isinstance(res, tuple) and res and res[0] == 'raise':
                if self.spec_mode:
                    continue
                out.append(self.raise_(res[1], s, res[2]))
            else:
                out.append((res, s))
        return out

    # ---- dispatcher ---------------------------------------------------------------
    def ev(self, node, st: State):
        m = getattr(self, 'ev_' + type(node).__name__, None)
        if m is None:
            raise OutOfSubset(f'expression {type(node).__name__}', node)
        return m(node, st)

    def ev1(self, node, st):
        """Evaluate in spec mode (or any context where exactly one normal result is expected)."""
        rs = self.ev(node, st)
        oks = [(r, s) for r, s in rs if not isinstance(r, Raised)]
        if len(oks) != 1:
            raise OutOfSubset(f'expected one result, got {len(oks)}/{len(rs)}', node)
        return oks[0]

    # ---- leaves -------------------------------------------------------------------
    def ev_Constant(self, node, st):
        return [(self.const_sv(node.value), st)]

    def ev_Name(self, node, st):
        return [(self.lookup(node.id, st, node), st)]

    def lookup(self, name: str, st: State, node=None) -> SV:
        if name in st.env:
            v = st.env[name]
            if v is None:
                raise OutOfSubset(f'use of possibly-unbound local {name}', node)
            return v
        return self.lookup_global(name, self.cur_module, node)

    def lookup_global(self, name: str, module: str, node=None) -> SV:
        idx = self.idx
        if name in self.spec_funcs:
            return self.spec_funcs[name]
        if name == 'List' and module == '$spec':
            return VClass('list')
        if name in self.SPEC_BUILTINS:
            return VBuiltin('spec.' + name)
        if name == 'MISSING' and module == '$spec':
            return VVal(self.th.const('sentinel:pane.field._MISSING'), py=None)
        if name == 'NotImplementedV' and module == '$spec':
            return VVal(self.th.NotImplV)
        if name in ('ANNOTATED', 'UNION', 'LITERAL') and module == '$spec':
            return VVal(self.th.const('typing:' + name.capitalize()))
        if name in ('GLOBAL_HANDLERS', 'BASIC_CONVERTERS', 'BASIC_WITH_ARGS', 'ABSTRACT_MAPPING') and module == '$spec':
            mod = {'GLOBAL_HANDLERS': 'pane.convert', 'ABSTRACT_MAPPING': 'pane.convert'}.get(name, 'pane.converters')
            kind = 'seq' if name == 'GLOBAL_HANDLERS' else 'map'
            return VVal(self.th.const(f'glob:{mod}._{name}'), kind=kind)
        if name == 'ELLIPSIS' and module == '$spec':
            return VVal(self.th.EllipsisV)
        if name == 'ANY' and module == '$spec':
            return VVal(self.th.const('typing:Any'))
        if (module, name) in idx.class_by_mod:
            return VClass(name)
        key = f'{module}:{name}'
        if key in idx.funcs:
            return VFunc(idx.funcs[key].node, {}, module, name)
        if (module, name) in idx.mod_imports:
            tgt = idx.mod_imports[(module, name)]
            return self.resolve_dotted(tgt, node)
        if (module, name) in idx.mod_consts:
            expr = idx.mod_consts[(module, name)]
            if isinstance(expr, ast.Constant):
                return self.const_sv(expr.value)
            if isinstance(expr, ast.Call) and isinstance(expr.func, ast.Name) and expr.func.id in ('_Missing', 'object'):
                return VVal(self.th.const(f'sentinel:{module}.{name}'), py=None)
            if isinstance(expr, ast.Tuple) and (module, name) not in self.no_eval_consts:
                # tuple-of-classes constants such as _ScalarType / _DataType: evaluate the real expression
                try:
                    saved = (self.cur_module, self.spec_mode)
                    self.cur_module, self.spec_mode = module, True
                    try:
                        r, _ = self.ev1(expr, State({}, []))
                    finally:
                        self.cur_module, self.spec_mode = saved
                    if isinstance(r, VTuple) and all(isinstance(x, VClass) for x in r.items):
                        return r
                except OutOfSubset:
                    pass
                self.no_eval_consts.add((module, name))
            if isinstance(expr, ast.Dict) and self.shape_of('$' + name) == 'table':
                # opt-in (shape "table"): a module-level dict literal that is only ever read; its display is evaluated
                saved = (self.cur_module, self.spec_mode)
                self.cur_module, self.spec_mode = module, True
                try:
                    r, _ = self.ev1(expr, State({}, []))
                finally:
                    self.cur_module, self.spec_mode = saved
                return r
            # module-level value we do not evaluate: opaque, stable constant
            return self.mkval(self.th.const(f'glob:{module}.{name}'), self.shape_of('$' + name))
        if name in BUILTIN_EXC or name in BUILTIN_CLASSES:
            return VClass(CLASS_ALIASES.get(name, name))
        if name in BUILTIN_FUNCS:
            return VBuiltin(name)
        if name == 'NotImplemented':
            return VVal(self.th.NotImplV, py=None)
        if name == 'Ellipsis':
            return VVal(self.th.EllipsisV)
        # names visible in sidecar spec files: class names known to the lattice or the repo
        if name in self.th.lat['sub'] or name in self.th.lat['exc_sub']:
            return VClass(name)
        if name in idx.classes:
            return VClass(name)
        if module == '$spec' and name[:1].isupper() and name.isidentifier() and name in ('BinaryIO', 'TextIO'):
            return VClass(name)
        raise OutOfSubset(f'unresolved name {name}', node)

    def resolve_dotted(self, dotted: str, node=None) -> SV:
        idx = self.idx
        if dotted in CLASS_ALIASES:
            return VClass(CLASS_ALIASES[dotted])
        parts = dotted.split('.')
        if dotted in idx.modules:
            return VModule(dotted)
        # repo-local: pane.errors.ParseInterrupt, pane.convert.make_converter, pane.util.KW_ONLY ...
        for cut in range(len(parts) - 1, 0, -1):
            mod = '.'.join(parts[:cut])
            if mod in idx.modules:
                rest = parts[cut:]
                if len(rest) == 1:
                    return self.lookup_global(rest[0], mod, node)
                if len(rest) == 0:
                    return VModule(mod)
        if dotted in idx.modules:
            return VModule(dotted)
        if dotted in self.KNOWN_FUNCS:
            return VBuiltin(dotted)
        last = parts[-1]
        if len(parts) >= 2 and (last in self.th.lat['sub'] or last in self.th.lat['exc_sub']) and last[0].isupper():
            return VClass(last)
        if dotted in ('typing_extensions.Self', 'typing_extensions.TypeAlias', 'typing.Any'):
            return VVal(self.th.const('typing:' + last))
        if dotted == 'dataclasses.KW_ONLY':
            return VVal(self.th.const('sentinel:KW_ONLY'))
        return VModule(dotted)

    def ev_Attribute(self, node, st):
        # module attribute chains first (t.Sequence, datetime.datetime, re.compile ...)
        dotted = self.dotted_name(node)
        if dotted is not None:
            head = dotted.split('.')[0]
            if head not in st.env and (self.cur_module, head) in self.idx.mod_imports:
                base = self.idx.mod_imports[(self.cur_module, head)]
                tgt = self.idx.mod_imports[(self.cur_module, head)] + dotted[len(head):]
                if not isinstance(self.resolve_dotted(base), (VClass, VVal, VFunc)):
                    if tgt.startswith('typing.') and tgt[7:] in ('Any', 'Union', 'Literal', 'Annotated', 'Optional'):
                        return [(VVal(self.th.const('typing:' + tgt[7:])), st)]
                    return [(self.resolve_dotted(tgt, node), st)]
        return self.bind(self.ev(node.value, st), lambda r, s: self.getattr_sv(r, node.attr, s, node))

    def dotted_name(self, node):
        parts = []
        while isinstance(node, ast.Attribute):
            parts.append(node.attr)
            node = node.value
        if isinstance(node, ast.Name):
            parts.append(node.id)
            return '.'.join(reversed(parts))
        return None

    def getattr_sv(self, recv: SV, attr: str, st: State, node=None):
        th = self.th
        if isinstance(recv, VModule):
            return [(self.resolve_dotted(recv.name + '.' + attr, node), st)]
        if isinstance(recv, VClass):
            # class attribute / classmethod reference
            fi = self.idx.find_method(recv.name, attr)
            if fi is not None:
                return [(VFunc(fi.node, {}, fi.module, fi.qualname, self_sv=recv, cls=recv.name), st)]
            if attr == '__name__':
                return [(self.const_sv(recv.name), st)]
            ci = self.idx.classes.get(recv.name)
            if ci is not None:
                for c in self.idx.mro(recv.name):
                    if attr in c.class_attrs or any(n == attr for n, _ in c.fields):
                        return [(self.mkval(th.const(f'clsattr:{c.name}.{attr}'), self.shape_of(f'{recv.name}.{attr}')), st)]
            return [(VBuiltin(f'{recv.name}.{attr}', recv=recv), st)]
        if isinstance(recv, VExc):
            recv = VVal(recv.val, kind='rec')
        if isinstance(recv, (VMapB, VSetB, VListB, VTuple)):
            return [(VBuiltin('builder.' + attr, recv=recv), st)]
        if isinstance(recv, VBuiltin) and recv.name == 'superobj':
            return [(VBuiltin('supermeth.' + attr), st)]
        if isinstance(recv, VGen):
            raise OutOfSubset('attribute of generator', node)
        if not isinstance(recv, VVal):
            raise OutOfSubset(f'attribute {attr} of {type(recv).__name__}', node)
        src = ast.unparse(node) if node is not None else None
        if src is not None and ('$attrsv:' + src) in st.env:
            return [(st.env['$attrsv:' + src], st)]
        is_self = src is not None and src.startswith('self.') and src.count('.') == 1 and bool(self.cur_class)
        # methods of the class of `self`
        if (recv.cls is not None or is_self) and not (attr == 'expected' and self.is_converter_class(recv.cls or self.cur_class)):
            cname = recv.cls or self.cur_class
            fi = self.idx.find_method(cname, attr)
            if fi is not None and not self.is_property(fi) and not self.is_abstract(fi) and not self.is_stub(fi):
                return [(VFunc(fi.node, {}, fi.module, fi.qualname, self_sv=recv, cls=cname), st)]
        # class-level constant of a plain (non-dataclass) class read through self, never assigned on instances
        if is_self and recv.cls is None:
            for c in self.idx.mro(self.cur_class):
                if c.is_dataclass:
                    break
                cv = dict((n, v) for n, v in c.fields).get(attr)
                if cv is not None and isinstance(cv, (ast.Tuple, ast.Dict)) and c.module == self.cur_module \
                        and not self.assigned_on_self(self.cur_class, attr):
                    return self.ev(cv, st)
        # IConv interface methods on any other receiver (and abstract ones on self)
        if attr in self.ICONV_METHODS and recv.kind != 'rec' and not (recv.cls and not self.is_converter_class(recv.cls)):
            return [(VBuiltin('iconv.' + attr, recv=recv), st)]
        if attr in self.VAL_METHODS:
            return [(VBuiltin('valmeth.' + attr, recv=recv), st)]
        # plain data attribute
        term = th.fld(attr)(recv.term)
        kind = self.shape_of(src) if src else None
        if kind is None:
            kind = self.shape_of('.' + attr)
        if kind is None:
            kind = getattr(self, 'obj_attr_kinds', {}).get((str(recv.term), attr))
        out = self.mkval(term, kind)
        if self.spec_mode or attr in self.TOTAL_ATTRS or self.attr_total(recv, attr, src):
            return [(out, st)]
        # attribute may be absent: AttributeError
        ha = th.has_attr(attr)(recv.term)
        return self.outcomes(st, [(ha, out), (z3.Not(ha), ('raise', 'AttributeError', f'getattr:{src}'))])

    def assigned_on_self(self, cname: str, attr: str) -> bool:
        for c in self.idx.mro(cname):
            for sub in ast.walk(c.node):
                if isinstance(sub, ast.Attribute) and sub.attr == attr and isinstance(sub.ctx, (ast.Store, ast.Del)):
                    return True
        return False

    def attr_total(self, recv: VVal, attr: str, src) -> bool:
        """Attribute reads that cannot fail: fields of self / of records / of declared shapes."""
        if src and (src.startswith('self.') or src.startswith('cls.')):
            return True
        if recv.kind in ('rec', 'conv') or recv.cls is not None:
            return True
        if src and self.shape_of(src) is not None:
            return True
        root = src.split('.')[0] if src else ''
        if root in self.total_attr_roots:
            return True
        return False

    TOTAL_ATTRS = {'__traceback__', 'tb_next', 'args', '__name__', '__class__', '__dict__', '__mro__', '__func__'}

    def is_stub(self, fi) -> bool:
        """A placeholder body (`...` / docstring only): the real function is installed at class creation (generated methods)."""
        body = [b for b in fi.node.body if not (isinstance(b, ast.Expr) and isinstance(b.value, ast.Constant) and isinstance(b.value.value, str))]
        return len(body) == 1 and isinstance(body[0], ast.Expr) and isinstance(body[0].value, ast.Constant) and body[0].value.value is Ellipsis

    def is_abstract(self, fi) -> bool:
        for d in fi.node.decorator_list:
            if (isinstance(d, ast.Attribute) and d.attr == 'abstractmethod') or (isinstance(d, ast.Name) and d.id == 'abstractmethod'):
                return True
        return False

    def is_converter_class(self, cname) -> bool:
        return bool(cname) and (cname == 'Converter' or self.idx.is_subclass(cname, 'Converter'))

    def is_property(self, fi) -> bool:
        return any((isinstance(d, ast.Name) and d.id in ('property', 'cached_property'))
                   or (isinstance(d, ast.Attribute) and d.attr in ('cached_property', 'property')) for d in fi.node.decorator_list)

    # ---- operators ------------------------------------------------------------------
    bool_ctx = 0

    def ev_bool(self, node, st):
        """evaluate `node` where only its truth value matters (if / while / filter / comprehension-if / not)"""
        self.bool_ctx += 1
        try:
            return self.ev(node, st)
        finally:
            self.bool_ctx -= 1

    def ev_BoolOp(self, node, st):
        is_and = isinstance(node.op, ast.And)

        def rec(i, st):
            if i == len(node.values) - 1:
                return self.ev(node.values[i], st)

            def k(v, s):
                tv = self.truth(v, s)
                if z3.is_true(tv):
                    return rec(i + 1, s) if is_and else [(v, s)]
                if z3.is_false(tv):
                    return [(v, s)] if is_and else rec(i + 1, s)
                # try to stay on one path when the rest is pure & boolean
                rest = rec(i + 1, s.fork())
                if len(rest) == 1 and not isinstance(rest[0][0], Raised) \
                        and (isinstance(rest[0][0], (VBool,)) or self.bool_ctx > 0) and self.pure_extension(s, rest[0][1]):
                    # (truthiness-equivalent result when an operand is not itself a bool: only in boolean contexts)
                    rb = self.truth(rest[0][0], rest[0][1])
                    s2 = rest[0][1]
                    return [(VBool(z3.And(tv, rb) if is_and else z3.Or(tv, rb)), self.merge_guarded(s, s2, tv if is_and else z3.Not(tv)))]
                out = []
                s_short = s.fork().add(z3.Not(tv) if is_and else tv)
                out.append((v, s_short))
                for r, s2 in rec(i + 1, s.fork().add(tv if is_and else z3.Not(tv))):
                    out.append((r, s2))
                return out
            return self.bind(self.ev(node.values[i], st), k)
        return rec(0, st)

    def pure_extension(self, s0: State, s1: State) -> bool:
        return s1.env == s0.env or all(s1.env.get(k) is s0.env.get(k) for k in set(s0.env) | set(s1.env))

    def merge_guarded(self, s0: State, s1: State, guard):
        """s1 extends s0 with extra facts established while evaluating under `guard`."""
        extra = s1.pc[len(s0.pc):]
        s = s0.fork()
        for f in extra:
            s.add(z3.Implies(guard, f) if not self.spec_mode else f)
        return s

    def ev_UnaryOp(self, node, st):
        def k(v, s):
            if isinstance(node.op, ast.Not):
                return [(VBool(z3.Not(self.truth(v, s))), s)]
            if isinstance(node.op, ast.USub):
                return [(VInt(-self.toInt(v, s)), s)]
            if isinstance(node.op, ast.Invert):
                return self.call_method_dunder(v, '__invert__', [], s, node)
            raise OutOfSubset('unary op', node)
        return self.bind(self.ev_bool(node.operand, st) if isinstance(node.op, ast.Not) else self.ev(node.operand, st), k)

    def ev_BinOp(self, node, st):
        def k(vs, s):
            a, b = vs
            op = node.op
            if isinstance(a, (VInt, VBool)) and isinstance(b, (VInt, VBool)):
                x, y = self.toInt(a, s), self.toInt(b, s)
                if isinstance(op, ast.Add):
                    return [(VInt(x + y), s)]
                if isinstance(op, ast.Sub):
                    return [(VInt(x - y), s)]
                if isinstance(op, ast.Mult):
                    return [(VInt(x * y), s)]
            if isinstance(op, ast.Add) and isinstance(a, VTuple) and isinstance(b, VTuple):
                return [(VTuple(a.items + b.items, a.is_list), s)]
            if isinstance(op, ast.Sub) and self.is_setlike(a) and self.is_setlike(b):
                return [(VSetB(z3.SetDifference(self.set_arr(a), self.set_arr(b))), s)]
            if isinstance(op, ast.BitOr) and self.is_setlike(a) and self.is_setlike(b):
                return [(VSetB(z3.SetUnion(self.set_arr(a), self.set_arr(b))), s)]
            if isinstance(op, ast.BitAnd) and self.is_setlike(a) and self.is_setlike(b):
                return [(VSetB(z3.SetIntersect(self.set_arr(a), self.set_arr(b))), s)]
            if isinstance(op, (ast.BitOr, ast.BitAnd)) and isinstance(a, VBool) and isinstance(b, VBool):
                return [(VBool(z3.Or(a.b, b.b) if isinstance(op, ast.BitOr) else z3.And(a.b, b.b)), s)]
            # opaque deterministic binary operator on values (may raise for user types: not modelled -> total)
            name = type(op).__name__
            if isinstance(a, VVal) and a.py is not None and isinstance(b, VVal) and b.py is not None and isinstance(op, ast.Add) \
                    and isinstance(a.py[1], str) and isinstance(b.py[1], str):
                return [(self.const_sv(a.py[1] + b.py[1]), s)]
            t = self.th.fn('binop_' + name, self.th.Val, self.th.Val, self.th.Val)(self.toVal(a, s), self.toVal(b, s))
            return [(VVal(t, fresh=True), s)]
        return self.bind(self.evs([node.left, node.right], st), k)

    def is_setlike(self, v):
        return isinstance(v, VSetB) or (isinstance(v, VVal) and v.kind == 'set')

    def set_arr(self, sv):
        return sv.has if isinstance(sv, VSetB) else self.th.s_hasA(sv.term)

    def set_has(self, sv, k, st):
        if isinstance(sv, VSetB):
            return z3.Select(sv.has, k)
        return z3.Select(self.th.s_hasA(sv.term), k)

    def set_lambda(self, f):
        k = z3.Const('k!set', self.th.Val)
        return z3.Lambda([k], f(k))

    def ev_Compare(self, node, st):
        def k(vs, s):
            conj = []
            outs = [(None, s)]
            cur = s
            res_states = [([], s)]
            left = vs[0]
            parts = []
            for op, right in zip(node.ops, vs[1:]):
                parts.append((op, left, right))
                left = right
            # membership may raise (unhashable): handle single-op case with forks; chains are pure here
            if len(parts) == 1:
                return self.compare(parts[0][0], parts[0][1], parts[0][2], s, node)
            bs = []
            for op, a, b in parts:
                r = self.compare(op, a, b, cur, node)
                oks = [(x, y) for x, y in r if not isinstance(x, Raised)]
                if len(r) != 1 or len(oks) != 1:
                    raise OutOfSubset('forking comparison chain', node)
                bs.append(self.truth(oks[0][0], oks[0][1]))
                cur = oks[0][1]
            return [(VBool(z3.And(bs)), cur)]
        return self.bind(self.evs([node.left] + list(node.comparators), st), k)

    def compare(self, op, a: SV, b: SV, st: State, node=None):
        th = self.th
        if isinstance(op, (ast.Eq, ast.Is)):
            return [(VBool(self.eq(a, b, st)), st)]
        if isinstance(op, (ast.NotEq, ast.IsNot)):
            return [(VBool(z3.Not(self.eq(a, b, st))), st)]
        if isinstance(op, (ast.In, ast.NotIn)):
            neg = isinstance(op, ast.NotIn)
            res = []
            for r, s in self.contains(a, b, st, node):
                if isinstance(r, Raised):
                    res.append((r, s))
                else:
                    res.append((VBool(z3.Not(r.b)) if neg else r, s))
            return res
        if isinstance(a, (VInt, VBool)) or isinstance(b, (VInt, VBool)):
            if self.is_numeric(a) and self.is_numeric(b):
                x, y = self.toInt(a, st), self.toInt(b, st)
                f = {ast.Lt: lambda: x < y, ast.LtE: lambda: x <= y, ast.Gt: lambda: x > y, ast.GtE: lambda: x >= y}[type(op)]
                return [(VBool(f()), st)]
        # ordering on opaque values: uninterpreted strict order `lt` (assumed total-order axioms are NOT added;
        # obligations that need them state them as preconditions)
        x, y = self.toVal(a, st), self.toVal(b, st)
        lt = th.fn('val_lt', th.Val, th.Val, th.B)
        f = {ast.Lt: lambda: lt(x, y), ast.LtE: lambda: z3.Or(lt(x, y), x == y), ast.Gt: lambda: lt(y, x),
             ast.GtE: lambda: z3.Or(lt(y, x), x == y)}[type(op)]
        return [(VBool(f()), st)]

    def is_numeric(self, v):
        return isinstance(v, (VInt, VBool)) or (isinstance(v, VVal) and v.kind == 'int')

    def contains(self, item: SV, cont: SV, st: State, node=None):
        th = self.th
        if isinstance(cont, VTuple):
            if not cont.items:
                return [(VBool(z3.BoolVal(False)), st)]
            return [(VBool(z3.Or([self.eq(item, x, st) for x in cont.items])), st)]
        k = self.toVal(item, st)
        if isinstance(cont, VMapB):
            return self.hash_guard(k, VBool(z3.Select(cont.has, k)), st, f'contains:{self.src(node)}', item)
        if isinstance(cont, VSetB):
            return self.hash_guard(k, VBool(z3.Select(cont.has, k)), st, f'contains:{self.src(node)}', item)
        if isinstance(cont, VListB):
            j = th.fresh('j', th.I)
            return [(VBool(z3.Exists([j], z3.And(j >= 0, j < cont.n, z3.Select(cont.arr, j) == k))), st)]
        if isinstance(cont, VVal):
            kind = cont.kind
            if kind == 'map':
                return self.hash_guard(k, VBool(z3.Select(th.m_hasA(cont.term), k)), st, f'contains:{self.src(node)}', item)
            if kind == 'set':
                return self.hash_guard(k, VBool(z3.Select(th.s_hasA(cont.term), k)), st, f'contains:{self.src(node)}', item)
            if kind in ('seq',):
                j = th.fresh('j', th.I)
                st.add(th.vlen(cont.term) >= 0)
                return [(VBool(z3.Exists([j], z3.And(j >= 0, j < th.vlen(cont.term), z3.Select(th.sq_arr(cont.term), j) == k))), st)]
            if kind in (None, 'str'):
                return [(VBool(th.seq_contains(cont.term, k)), st)]
        if isinstance(cont, VIter):
            if cont.static is not None:
                return self.contains(item, VTuple(tuple(cont.static)), st, node)
            j = th.fresh('j', th.I)
            s0 = State(dict(st.env), [])
            ev = self.toVal(cont.at(j, s0), s0)
            keep = cont.keep(j, s0) if cont.keep is not None else z3.BoolVal(True)
            if s0.pc:
                st.add(z3.ForAll([j], z3.Implies(z3.And(j >= 0, j < cont.n), z3.And(s0.pc))))
            return [(VBool(z3.Exists([j], z3.And(j >= 0, j < cont.n, keep, ev == k))), st)]
        raise OutOfSubset(f'membership in {type(cont).__name__}', node)

    def hash_guard(self, k, ok_result, st, origin, item_sv=None):
        """Hash-based lookups raise TypeError on unhashable keys."""
        if self.spec_mode or self.known_hashable(item_sv):
            return [(ok_result, st)]
        h = self.th.hashable(k)
        return self.outcomes(st, [(h, ok_result), (z3.Not(h), ('raise', 'TypeError', origin + ':unhashable'))])

    def known_hashable(self, sv) -> bool:
        if sv is None:
            return False
        if isinstance(sv, (VInt, VBool, VClass)):
            return True
        if isinstance(sv, VVal) and (sv.py is not None or sv.kind == 'str' or getattr(sv, 'hashable', False)):
            return True
        if isinstance(sv, VVal) and sv.term in self.hashable_terms:
            return True
        return False

    def src(self, node):
        try:
            return ast.unparse(node) if node is not None else '?'
        except Exception:
            return '?'

    def ev_IfExp(self, node, st):
        def k(c, s):
            tv = self.truth(c, s)
            tvs = z3.simplify(tv)
            if z3.is_true(tvs):
                return self.ev(node.body, s)
            if z3.is_false(tvs):
                return self.ev(node.orelse, s)
            n0 = len(s.pc)
            a = self.ev(node.body, s.fork().add(tv))
            b = self.ev(node.orelse, s.fork().add(z3.Not(tv)))
            if len(a) == 1 and len(b) == 1 and not isinstance(a[0][0], Raised) and not isinstance(b[0][0], Raised) \
                    and self.pure_extension(s, a[0][1]) and self.pure_extension(s, b[0][1]):
                (ra, sa), (rb, sb) = a[0], b[0]
                merged = s.fork()
                for f in sa.pc[n0 + 1:]:
                    merged.add(f if self.spec_mode else z3.Implies(tv, f))
                for f in sb.pc[n0 + 1:]:
                    merged.add(f if self.spec_mode else z3.Implies(z3.Not(tv), f))
                try:
                    return [(self.ite_sv(tv, ra, rb, merged), merged)]
                except OutOfSubset:
                    pass
            return a + b
        return self.bind(self.ev_bool(node.test, st), k)

    def ite_sv(self, c, a: SV, b: SV, st: State) -> SV:
        if isinstance(a, (VClass, VFunc, VBuiltin, VIter, VGen)) or isinstance(b, (VClass, VFunc, VBuiltin, VIter, VGen)):
            if not self.spec_mode:
                raise OutOfSubset('conditional value of callable kind: paths are kept apart')
        if isinstance(a, VBool) and isinstance(b, VBool):
            return VBool(z3.If(c, a.b, b.b))
        if isinstance(a, VInt) and isinstance(b, VInt):
            return VInt(z3.If(c, a.i, b.i))
        kind = a.kind if isinstance(a, VVal) and isinstance(b, VVal) and a.kind == b.kind else None
        cls = a.cls if isinstance(a, VVal) and isinstance(b, VVal) and a.cls == b.cls else None
        return VVal(z3.If(c, self.toVal(a, st), self.toVal(b, st)), kind=kind, cls=cls)

    def ev_NamedExpr(self, node, st):
        def k(v, s):
            s.env[node.target.id] = v
            return [(v, s)]
        return self.bind(self.ev(node.value, st), k)

    def ev_Tuple(self, node, st):
        return self.display(node, st, False)

    def ev_List(self, node, st):
        return self.display(node, st, True)

    def display(self, node, st, is_list):
        if any(isinstance(e, ast.Starred) for e in node.elts):
            # [*a, *b] / (x, *shape): concatenate iteration sources
            return self.star_display(node, st, is_list)
        return self.bind(self.evs(node.elts, st), lambda vs, s: [(VTuple(tuple(vs), is_list), s)])

    def ev_Set(self, node, st):
        def k(vs, s):
            has = self.th.empty_set
            for v in vs:
                has = z3.Store(has, self.toVal(v, s), True)
            return [(VSetB(has), s)]
        return self.bind(self.evs(node.elts, st), k)

    def ev_Dict(self, node, st):
        if any(k is None for k in node.keys):
            raise OutOfSubset('dict unpacking display', node)

        def k(vs, s):
            n = len(node.keys)
            m = VMapB(self.th.empty_set, self.th.dflt_map)
            entries = {}
            for kk, vv in zip(vs[:n], vs[n:]):
                kt = self.toVal(kk, s)
                m = VMapB(z3.Store(m.has, kt, True), z3.Store(m.get, kt, self.toVal(vv, s)))
                sk = self.static_key(kk)
                if entries is not None and sk is not None:
                    entries[sk] = vv
                else:
                    entries = None
            if entries:
                object.__setattr__(m, '_entries', entries)     # display with statically known keys: exact look-up of constant keys
            return [(m, s)]
        # keys and values interleaved in source order: k1, v1, k2, v2; evaluate keys then values pairwise
        order = []
        for kk, vv in zip(node.keys, node.values):
            order += [kk, vv]

        def k2(vs, s):
            ks = vs[0::2]
            vs_ = vs[1::2]
            return k(list(ks) + list(vs_), s)
        return self.bind(self.evs(order, st), k2)

    def static_key(self, sv):
        if isinstance(sv, VBool):
            b = z3.simplify(sv.b)
            return ('b', True) if z3.is_true(b) else ('b', False) if z3.is_false(b) else None
        if isinstance(sv, VInt):
            i = z3.simplify(sv.i)
            return ('i', i.as_long()) if z3.is_int_value(i) else None
        if isinstance(sv, VClass):
            return ('c', sv.name)
        if isinstance(sv, VTuple):
            ks = tuple(self.static_key(x) for x in sv.items)
            return None if any(k is None for k in ks) else ('t',) + ks
        return None

    def ev_JoinedStr(self, node, st):
        # f-string: an uninterpreted, deterministic string builder keyed by its literal skeleton
        exprs = [v.value for v in node.values if isinstance(v, ast.FormattedValue)]
        skeleton = ''.join(v.value if isinstance(v, ast.Constant) else '{}' for v in node.values)

        def k(vs, s):
            if not vs:
                return [(self.const_sv(skeleton), s)]
            th = self.th
            f = th.fn('fstr_' + str(len(vs)), *([th.Val] * (len(vs) + 2)))
            t = f(th.strc(skeleton), *[self.toVal(v, s) for v in vs])
            s.add(th.isc('str')(t))
            return [(VVal(t, kind='str', fresh=True), s)]
        return self.bind(self.evs(exprs, st), k)

    def ev_Lambda(self, node, st):
        return [(VFunc(node, st.env, self.cur_module, '<lambda>', frame=st.env.get('$frame')), st)]

    def ev_Starred(self, node, st):
        raise OutOfSubset('starred expression', node)

    no_eval_consts = set()

    # ---- subscripts -----------------------------------------------------------------
    def ev_Subscript(self, node, st):
        if isinstance(node.slice, ast.Slice):
            return self.bind(self.ev(node.value, st), lambda v, s: self.slice_sv(v, node.slice, s, node))
        return self.bind(self.evs([node.value, node.slice], st), lambda vs, s: self.getitem(vs[0], vs[1], s, node))

    def slice_sv(self, v, sl, st, node):
        if isinstance(v, VTuple):
            def c(n):
                if n is None:
                    return None
                if isinstance(n, ast.Constant):
                    return n.value
                if isinstance(n, ast.UnaryOp) and isinstance(n.op, ast.USub) and isinstance(n.operand, ast.Constant):
                    return -n.operand.value
                raise OutOfSubset('slice bound', node)
            return [(VTuple(v.items[slice(c(sl.lower), c(sl.upper), c(sl.step))], v.is_list), st)]
        th = self.th
        t = th.fn('slice_' + san_slice(sl), th.Val, th.Val)(self.toVal(v, st))
        return [(VVal(t, fresh=True, kind=getattr(v, 'kind', None)), st)]

    def getitem(self, cont: SV, idx: SV, st: State, node=None):
        th = self.th
        origin = f'getitem:{self.src(node)}'
        if isinstance(cont, VTuple):
            if isinstance(idx, VInt) and z3.is_int_value(z3.simplify(idx.i)):
                i = z3.simplify(idx.i).as_long()
                if -len(cont.items) <= i < len(cont.items):
                    return [(cont.items[i], st)]
                return [self.raise_('IndexError', st, origin)]
            # symbolic index into static tuple
            i = self.toInt(idx, st)
            t = self.toVal(cont, st)
            return self.seq_index(t, i, z3.IntVal(len(cont.items)), st, origin)
        if isinstance(cont, VListB):
            i = self.toInt(idx, st)
            return self.outcomes(st, [(z3.And(i >= 0, i < cont.n), VVal(z3.Select(cont.arr, i))),
                                      (z3.Not(z3.And(i >= 0, i < cont.n)), ('raise', 'IndexError', origin))])
        if isinstance(cont, VMapB) and isinstance(idx, VTuple) and not getattr(idx, '_split', False) \
                and any(isinstance(x, VBool) and not (z3.is_true(z3.simplify(x.b)) or z3.is_false(z3.simplify(x.b))) for x in idx.items) \
                and len(idx.items) <= 6:
            # a tuple-of-flags key (decision tables): split the path on each symbolic flag so every look-up uses a constant key
            import itertools
            pos = [j for j, x in enumerate(idx.items) if isinstance(x, VBool) and not (z3.is_true(z3.simplify(x.b)) or z3.is_false(z3.simplify(x.b)))]
            outs = []
            for combo in itertools.product([True, False], repeat=len(pos)):
                s2 = st.fork()
                items = list(idx.items)
                for j, bv in zip(pos, combo):
                    s2.add(idx.items[j].b if bv else z3.Not(idx.items[j].b))
                    items[j] = VBool(z3.BoolVal(bv))
                if self.quick_infeasible(s2.pc):
                    continue
                k2 = VTuple(tuple(items), idx.is_list)
                object.__setattr__(k2, '_split', True)
                outs.extend(self.getitem(cont, k2, s2, node))
            return outs
        if isinstance(cont, VMapB) and getattr(cont, '_entries', None):
            sk = self.static_key(idx)
            if sk is not None:
                if sk in cont._entries:
                    return [(cont._entries[sk], st)]
                return [self.raise_('KeyError', st, origin)]
        if isinstance(cont, VMapB):
            k = self.toVal(idx, st)
            has = z3.Select(cont.has, k)
            alts = [(has, VVal(z3.Select(cont.get, k))), (z3.Not(has), ('raise', 'KeyError', origin))]
            return self.with_hash(k, idx, st, origin, alts)
        if isinstance(cont, VClass):
            # generic alias, e.g. t.List[ty]: opaque type term
            t = th.fn('subscript_type', th.Val, th.Val, th.Val)(self.toVal(cont, st), self.toVal(idx, st))
            return [(VVal(t), st)]
        if isinstance(cont, VVal):
            kind = cont.kind
            if kind is None and isinstance(idx, VInt):
                kind = 'seq'
            if kind in ('seq', 'str'):
                i = self.toInt(idx, st)
                n = th.vlen(cont.term)
                if isinstance(idx, VInt) and z3.is_int_value(z3.simplify(idx.i)) and z3.simplify(idx.i).as_long() < 0:
                    i = n + i
                return self.seq_index(cont.term, i, n, st, origin, elem_kind=self.shape_of(self.src(node.value) + '[]') if node is not None else None)
            if kind == 'map':
                k = self.toVal(idx, st)
                has = z3.Select(th.m_hasA(cont.term), k)
                ek = self.shape_of(self.src(node.value) + '[]') if node is not None else None
                alts = [(has, self.mkval(z3.Select(th.m_getA(cont.term), k), ek)), (z3.Not(has), ('raise', 'KeyError', origin))]
                if not self.spec_mode and self.depth == 0 and not cont.fresh and self.is_entry_param(cont) and node is not None:
                    # m[k] on a mapping handed in by the caller: a Mapping with __missing__ (defaultdict) INSERTS on a miss, so the
                    # read is only side-effect free where the key is known to be present
                    self.emit(Obligation(self.cur_func_key, 'frame', f'{self.next_label()}', self.frame_props, list(st.pc), has,
                                         origin=f'subscript {self.src(node)} of a caller-owned mapping at a key not known to be present '
                                                f'(a mapping with __missing__, e.g. defaultdict, is modified by the look-up)', path_kind='mutation'))
                return self.with_hash(k, idx, st, origin, alts)
            if kind in ('typeobj', 'cls', 'callable') or str(cont.term).startswith('c!typing_'):
                t = th.fn('subscript_type', th.Val, th.Val, th.Val)(cont.term, self.toVal(idx, st))
                return [(VVal(t), st)]
        raise OutOfSubset(f'subscript on {type(cont).__name__} (kind {getattr(cont, "kind", None)}): add a shape hint', node)

    def is_entry_param(self, v) -> bool:
        ee = getattr(self, 'entry_env', None) or {}
        return any(isinstance(p, VVal) and not k.startswith('$') and k not in ('self', 'cls') and p.term.eq(v.term) for k, p in ee.items())

    def seq_index(self, t, i, n, st, origin, elem_kind=None):
        th = self.th
        st.add(n >= 0)
        ok = z3.And(i >= 0, i < n)
        res = self.mkval(z3.Select(th.sq_arr(t), i), elem_kind)
        if self.spec_mode:
            return [(res, st)]
        return self.outcomes(st, [(ok, res), (z3.Not(ok), ('raise', 'IndexError', origin))])

    def with_hash(self, k, idx_sv, st, origin, alts):
        if self.spec_mode:
            return self.outcomes(st, [(z3.BoolVal(True), alts[0][1])])
        if self.known_hashable(idx_sv):
            return self.outcomes(st, alts)
        h = self.th.hashable(k)
        return self.outcomes(st, [(z3.And(h, c), r) for c, r in alts] + [(z3.Not(h), ('raise', 'TypeError', origin + ':unhashable'))])


def san_slice(sl) -> str:
    def c(n):
        return 'n' if n is None else ast.unparse(n).replace('-', 'm').replace(' ', '')
    import re
    return re.sub(r'[^A-Za-z0-9_]', '_', f'{c(sl.lower)}_{c(sl.upper)}_{c(sl.step)}')
