"""Run under /venv/bin/python (the interpreter the repository's tests use).

Dumps, as JSON on stdout, facts about real CPython / pane classes that the verifier injects as
ground axioms instead of hand-writing them:
  - sub[A][B]      : issubclass(A, B) for the named value classes
  - hashable[A]    : instances of A are hashable (A.__hash__ is not None)
  - conflict[A][B] : A and B cannot have a common subclass (instance lay-out conflict / final type)
  - attrs[A]       : which of a fixed list of attribute names instances of A are guaranteed to have
  - exc_sub[A][B]  : issubclass for the named exception classes
"""
import sys, json, collections, collections.abc as abc, datetime, decimal, fractions, re, os, pathlib, enum
import traceback

sys.path.insert(0, sys.argv[1] if len(sys.argv) > 1 else '/repo')
import importlib
import pane, pane.errors, pane.converters, pane.classes, pane.convert, pane.annotations  # noqa
_field = importlib.import_module('pane.field')
_types = importlib.import_module('pane.types')

VAL = {
    'NoneType': type(None), 'bool': bool, 'int': int, 'float': float, 'complex': complex, 'str': str,
    'bytes': bytes, 'bytearray': bytearray, 'list': list, 'tuple': tuple, 'dict': dict, 'set': set,
    'frozenset': frozenset, 'Sequence': abc.Sequence, 'MutableSequence': abc.MutableSequence,
    'Mapping': abc.Mapping, 'MutableMapping': abc.MutableMapping,
    'Iterable': abc.Iterable, 'Set': abc.Set, 'MutableSet': abc.MutableSet, 'Sized': abc.Sized,
    'Hashable': abc.Hashable,
    'Pattern': re.Pattern, 'datetime': datetime.datetime, 'date': datetime.date, 'time': datetime.time,
    'Decimal': decimal.Decimal, 'Fraction': fractions.Fraction, 'PathLike': os.PathLike,
    'PurePath': pathlib.PurePath, 'Enum': enum.Enum, 'Flag': enum.Flag, 'type': type,
    'deque': collections.deque, 'Counter': collections.Counter, 'defaultdict': collections.defaultdict,
    'TracebackException': traceback.TracebackException,
    'PaneBase': pane.classes.PaneBase, 'Converter': pane.converters.Converter,
    'ErrorNode': pane.errors.ErrorNode, 'WrongTypeError': pane.errors.WrongTypeError,
    'WrongLenError': pane.errors.WrongLenError, 'ConditionFailedError': pane.errors.ConditionFailedError,
    'DuplicateKeyError': pane.errors.DuplicateKeyError, 'ProductErrorNode': pane.errors.ProductErrorNode,
    'SumErrorNode': pane.errors.SumErrorNode,
    'Field': _field.Field, 'FieldSpec': _field.FieldSpec,
    'Condition': pane.annotations.Condition, 'ConvertAnnotation': pane.annotations.ConvertAnnotation,
    'Tagged': pane.annotations.Tagged,
    'AnyConverter': pane.converters.AnyConverter,
    'TypeVar': __import__('typing').TypeVar, 'ForwardRef': __import__('typing').ForwardRef,
    'IOBase': __import__('io').IOBase, 'TextIOBase': __import__('io').TextIOBase,
    'TextIOWrapper': __import__('io').TextIOWrapper, 'BufferedIOBase': __import__('io').BufferedIOBase,
    'ValueOrList': _types.ValueOrList,
    'StringIO': __import__('io').StringIO,
    'function': __import__('types').FunctionType,
}
EXC = {
    'BaseException': BaseException,
    'Exception': Exception, 'ParseInterrupt': pane.errors.ParseInterrupt, 'ConvertError': pane.errors.ConvertError,
    'UnsupportedAnnotation': pane.errors.UnsupportedAnnotation,
    'KeyError': KeyError, 'IndexError': IndexError, 'LookupError': LookupError, 'TypeError': TypeError,
    'ValueError': ValueError, 'AttributeError': AttributeError, 'OverflowError': OverflowError,
    'ArithmeticError': ArithmeticError, 'ZeroDivisionError': ZeroDivisionError,
    'AssertionError': AssertionError, 'RuntimeError': RuntimeError, 'NotImplementedError': NotImplementedError,
    'StopIteration': StopIteration, 'OSError': OSError, 'ImportError': ImportError,
    're.error': re.error, 'RecursionError': RecursionError, 'UnicodeError': UnicodeError,
    'FrozenInstanceError': __import__('dataclasses').FrozenInstanceError,
}
# exception classes named in `except` clauses / raise statements of the source are resolved dynamically
import ast as _ast, glob as _glob, importlib as _il
for _path in _glob.glob(os.path.join(sys.argv[1] if len(sys.argv) > 1 else '/repo', 'pane', '**', '*.py'), recursive=True):
    _rel = os.path.relpath(_path, sys.argv[1] if len(sys.argv) > 1 else '/repo')[:-3].replace(os.sep, '.')
    if _rel.endswith('.__init__'):
        _rel = _rel[:-9]
    try:
        _mod = _il.import_module(_rel)
        _tree = _ast.parse(open(_path).read())
    except Exception:
        continue
    for _n in _ast.walk(_tree):
        _names = []
        if isinstance(_n, _ast.ExceptHandler) and _n.type is not None:
            _names = _n.type.elts if isinstance(_n.type, _ast.Tuple) else [_n.type]
        for _e in _names:
            try:
                _obj = eval(compile(_ast.Expression(_e), '<x>', 'eval'), vars(_mod))
                _nm = _ast.unparse(_e).split('.')[-1]
                if isinstance(_obj, type) and issubclass(_obj, BaseException) and _nm not in EXC and _obj not in EXC.values():
                    EXC[_nm] = _obj
            except Exception:
                pass

ATTRS = ['copy', 'pop', 'items', 'keys', 'values', 'get', 'pattern', 'isoformat', 'append', 'add',
         'value', 'fromisoformat', '__len__', '__iter__', '__getitem__', '__contains__', 'format', 'format_exception_only',
         'print_error', 'getvalue', 'buffer', 'reconfigure', 'closed', 'readable', 'writable']


def conflict(a, b):
    if issubclass(a, b) or issubclass(b, a):
        return False
    try:
        type('X', (a, b), {})
        return False
    except TypeError as e:
        return True
    except Exception:
        return False


out = {
    'sub': {a: {b: issubclass(A, B) for b, B in VAL.items()} for a, A in VAL.items()},
    'hashable': {a: getattr(A, '__hash__', None) is not None for a, A in VAL.items()},
    'conflict': {a: {b: conflict(A, B) for b, B in VAL.items()} for a, A in VAL.items()},
    'attrs': {a: [n for n in ATTRS if hasattr(A, n)] for a, A in VAL.items()},
    'exc_sub': {a: {b: issubclass(A, B) for b, B in EXC.items()} for a, A in EXC.items()},
    'python': sys.version,
}
# str/bytes instances are Sequences etc. via ABC registration: issubclass covers it
json.dump(out, sys.stdout)
