"""Index of the real source under <repo>/pane: re-read with ast on every run.

Nothing here is a model of the code: it only locates function bodies by qualified name
(including closures, "classes:_make_init.<locals>.__init__"), class definitions (bases, methods,
dataclass-style field lists with defaults) and module-level simple constants.
"""
from __future__ import annotations
import ast
import hashlib
import os
from dataclasses import dataclass, field as dfield
from typing import Dict, List, Optional, Tuple


@dataclass
class FuncInfo:
    module: str            # e.g. "pane.converters"
    qualname: str          # e.g. "TupleConverter.try_convert" or "_make_init.<locals>.__init__"
    node: ast.AST          # FunctionDef / Lambda
    cls: Optional[str]     # enclosing class name (direct), if a method
    src: str
    lineno: int
    end_lineno: int
    parent: Optional[str] = None   # qualname of enclosing function, for closures

    @property
    def key(self) -> str:
        return f"{self.module}:{self.qualname}"

    @property
    def sha(self) -> str:
        return hashlib.sha256(self.src.encode()).hexdigest()[:16]


@dataclass
class ClassInfo:
    module: str
    name: str
    node: ast.ClassDef
    bases: List[str]                       # textual base names (last attribute component)
    methods: Dict[str, FuncInfo] = dfield(default_factory=dict)
    fields: List[Tuple[str, Optional[ast.expr]]] = dfield(default_factory=list)  # annotated class-level names (dataclass order) with default expr
    field_meta: Dict[str, dict] = dfield(default_factory=dict)
    is_dataclass: bool = False
    dataclass_init: bool = True
    class_attrs: Dict[str, ast.expr] = dfield(default_factory=dict)   # plain class-level assignments


class RepoIndex:
    def __init__(self, repo: str):
        self.repo = repo
        self.modules: Dict[str, ast.Module] = {}
        self.sources: Dict[str, str] = {}
        self.funcs: Dict[str, FuncInfo] = {}
        self.classes: Dict[str, ClassInfo] = {}        # by bare class name (unique in pane)
        self.class_by_mod: Dict[Tuple[str, str], ClassInfo] = {}
        self.mod_consts: Dict[Tuple[str, str], ast.expr] = {}   # (module, name) -> value expr (simple assigns)
        self.mod_imports: Dict[Tuple[str, str], str] = {}       # (module, localname) -> dotted target
        pdir = os.path.join(repo, 'pane')
        for root, _dirs, files in os.walk(pdir):
            for fn in sorted(files):
                if not fn.endswith('.py'):
                    continue
                path = os.path.join(root, fn)
                rel = os.path.relpath(path, repo)[:-3].replace(os.sep, '.')
                if rel.endswith('.__init__'):
                    rel = rel[:-9]
                src = open(path, encoding='utf-8').read()
                try:
                    tree = ast.parse(src, filename=path)
                except SyntaxError as e:   # a broken tree is a checker error, not a verdict
                    raise RuntimeError(f"cannot parse {path}: {e}")
                self.modules[rel] = tree
                self.sources[rel] = src
                self._index_module(rel, tree, src)

    # ------------------------------------------------------------------
    def _index_module(self, mod: str, tree: ast.Module, src: str):
        for st in tree.body:
            self._index_stmt(mod, st, src, prefix='', cls=None, parent=None)
            if isinstance(st, ast.Assign) and len(st.targets) == 1 and isinstance(st.targets[0], ast.Name):
                self.mod_consts[(mod, st.targets[0].id)] = st.value
            elif isinstance(st, ast.AnnAssign) and isinstance(st.target, ast.Name) and st.value is not None:
                self.mod_consts[(mod, st.target.id)] = st.value
            elif isinstance(st, ast.Assign) and len(st.targets) == 1 and isinstance(st.targets[0], ast.Tuple) \
                    and isinstance(st.value, ast.Tuple) and len(st.targets[0].elts) == len(st.value.elts):
                for tg, vv in zip(st.targets[0].elts, st.value.elts):
                    if isinstance(tg, ast.Name):
                        self.mod_consts[(mod, tg.id)] = vv
            elif isinstance(st, ast.Import):
                for a in st.names:
                    self.mod_imports[(mod, a.asname or a.name.split('.')[0])] = a.name if a.asname else a.name.split('.')[0]
            elif isinstance(st, ast.ImportFrom):
                base = st.module or ''
                if st.level:
                    parts = mod.split('.')
                    # module "pane.converters": level 1 -> package "pane"
                    pkg = parts[:len(parts) - st.level] if not self._is_pkg(mod) else parts[:len(parts) - st.level + 1]
                    base = '.'.join(pkg + ([st.module] if st.module else []))
                for a in st.names:
                    self.mod_imports[(mod, a.asname or a.name)] = f"{base}.{a.name}"
            elif isinstance(st, (ast.Try, ast.If)):
                # e.g. try: from dataclasses import KW_ONLY
                for sub in ast.walk(st):
                    if isinstance(sub, ast.ImportFrom):
                        for a in sub.names:
                            self.mod_imports.setdefault((mod, a.asname or a.name), f"{sub.module}.{a.name}")

    def _is_pkg(self, mod: str) -> bool:
        return os.path.isdir(os.path.join(self.repo, *mod.split('.')))

    def _index_stmt(self, mod, st, src, prefix, cls, parent):
        if isinstance(st, (ast.FunctionDef, ast.AsyncFunctionDef)):
            # skip @t.overload stubs
            for d in st.decorator_list:
                if isinstance(d, ast.Attribute) and d.attr == 'overload' or isinstance(d, ast.Name) and d.id == 'overload':
                    return
            qn = prefix + st.name
            fi = FuncInfo(mod, qn, st, cls, ast.get_source_segment(src, st) or '', st.lineno, st.end_lineno or st.lineno, parent)
            self.funcs[fi.key] = fi
            if cls is not None and (mod, cls) in self.class_by_mod and prefix == cls + '.':
                self.class_by_mod[(mod, cls)].methods[st.name] = fi
            for sub in st.body:
                self._index_nested(mod, sub, src, qn + '.<locals>.', qn)
        elif isinstance(st, ast.ClassDef):
            bases = []
            for b in st.bases:
                bb = b
                if isinstance(bb, ast.Subscript):
                    bb = bb.value
                if isinstance(bb, ast.Attribute):
                    bases.append(bb.attr)
                elif isinstance(bb, ast.Name):
                    bases.append(bb.id)
            ci = ClassInfo(mod, st.name, st, bases)
            for d in st.decorator_list:
                dd = d.func if isinstance(d, ast.Call) else d
                nm = dd.attr if isinstance(dd, ast.Attribute) else getattr(dd, 'id', '')
                if nm == 'dataclass':
                    ci.is_dataclass = True
                    if isinstance(d, ast.Call):
                        for kw in d.keywords:
                            if kw.arg == 'init' and isinstance(kw.value, ast.Constant):
                                ci.dataclass_init = bool(kw.value.value)
            self.classes[st.name] = ci
            self.class_by_mod[(mod, st.name)] = ci
            for sub in st.body:
                if isinstance(sub, ast.AnnAssign) and isinstance(sub.target, ast.Name):
                    ci.fields.append((sub.target.id, sub.value))
                    ci.field_meta[sub.target.id] = self._field_meta(sub.value)
                elif isinstance(sub, ast.Assign) and len(sub.targets) == 1 and isinstance(sub.targets[0], ast.Name):
                    ci.class_attrs[sub.targets[0].id] = sub.value
                self._index_stmt(mod, sub, src, st.name + '.', st.name, None)

    @staticmethod
    def _field_meta(value) -> dict:
        """dataclasses.field(init=False, default_factory=...) meta of a dataclass field default."""
        meta = {'init': True, 'factory': None, 'has_default': value is not None, 'default': value}
        if isinstance(value, ast.Call):
            f = value.func
            nm = f.attr if isinstance(f, ast.Attribute) else getattr(f, 'id', '')
            if nm == 'field':
                meta['has_default'] = False
                meta['default'] = None
                for kw in value.keywords:
                    if kw.arg == 'init' and isinstance(kw.value, ast.Constant):
                        meta['init'] = bool(kw.value.value)
                    elif kw.arg == 'default_factory':
                        meta['factory'] = kw.value
                        meta['has_default'] = True
                    elif kw.arg == 'default':
                        meta['default'] = kw.value
                        meta['has_default'] = True
        return meta

    def _index_nested(self, mod, st, src, prefix, parent):
        # find nested defs anywhere inside a function body (closures)
        if isinstance(st, (ast.FunctionDef, ast.AsyncFunctionDef)):
            self._index_stmt(mod, st, src, prefix, None, parent)
            return
        for child in ast.iter_child_nodes(st):
            if isinstance(child, (ast.stmt,)) or isinstance(child, ast.ExceptHandler):
                self._index_nested(mod, child, src, prefix, parent)

    # ------------------------------------------------------------------
    def func(self, key: str) -> FuncInfo:
        if key not in self.funcs:
            raise KeyError(f"function {key} not found in {self.repo}")
        return self.funcs[key]

    def mro(self, cname: str) -> List[ClassInfo]:
        """Linearised repo-local ancestry (good enough for single inheritance chains in pane)."""
        out: List[ClassInfo] = []
        seen = set()

        def rec(n):
            ci = self.classes.get(n)
            if ci is None or n in seen:
                return
            seen.add(n)
            out.append(ci)
            for b in ci.bases:
                rec(b)
        rec(cname)
        return out

    def find_method(self, cname: str, meth: str, after: Optional[str] = None) -> Optional[FuncInfo]:
        chain = self.mro(cname)
        if after is not None:
            names = [c.name for c in chain]
            if after in names:
                chain = chain[names.index(after) + 1:]
        for ci in chain:
            if meth in ci.methods:
                return ci.methods[meth]
        return None

    def is_subclass(self, cname: str, base: str) -> bool:
        return any(c.name == base for c in self.mro(cname)) or base in [b for c in self.mro(cname) for b in c.bases]

    def dataclass_fields(self, cname: str) -> List[Tuple[str, dict]]:
        """Constructor parameter order of a (repo) dataclass: inherited first, KW_ONLY sentinel dropped."""
        out: Dict[str, dict] = {}
        for ci in reversed(self.mro(cname)):
            for (n, _v) in ci.fields:
                if n == '_':
                    continue
                out[n] = ci.field_meta[n]
        return list(out.items())
