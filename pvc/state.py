"""Path state and obligations."""
from __future__ import annotations
from dataclasses import dataclass, field
from typing import Any, Dict, List, Optional


class State:
    __slots__ = ('env', 'pc', 'notes')

    def __init__(self, env=None, pc=None, notes=None):
        self.env: Dict[str, Any] = env if env is not None else {}
        self.pc: List[Any] = pc if pc is not None else []
        self.notes: List[str] = notes if notes is not None else []

    def fork(self) -> 'State':
        return State(dict(self.env), list(self.pc), list(self.notes))

    def add(self, *facts):
        for f in facts:
            self.pc.append(f)
        return self


@dataclass
class Obligation:
    func: str                 # "pane.converters:TupleConverter.try_convert"
    kind: str                 # acc / val / exc / frame / inv.init / inv.step / tree / ser / pair / ...
    label: str                # unique-ish label within the function (path id, loop ordinal, origin)
    props: List[str]
    pc: List[Any]
    goal: Any
    origin: str = ''          # human description: which op / which exit
    path_kind: str = ''       # return / raise / loop
    route: str = 'complete'   # complete / L3 / L2 / bounded(N)
    # filled by the solver
    verdict: str = ''         # discharged / refuted / undecided
    backend: str = ''
    time_s: float = 0.0
    model: str = ''
    reason: str = ''

    @property
    def oid(self) -> str:
        return f"{self.func}#{self.kind}@{self.label}"
