"""Driver: verify a set of contracts in a process pool; returns plain dict results."""
from __future__ import annotations
import json
import multiprocessing as mp
import os
import sys
import time
import traceback
from typing import Any, Dict, List, Optional

from .repoindex import RepoIndex
from .theory import load_lattice
from .engine import Engine, Sidecar, Contract
from .sv import OutOfSubset

_G: Dict[str, Any] = {}


PURE_CONVERTER_METHODS = ('try_convert', 'collect_errors', 'into_data', 'convert', 'construct', 'try_convert_struct', 'try_convert_tuple',
                          'collect_errors_struct', 'collect_errors_tuple', 'expected')


def augment(side: Sidecar, idx: RepoIndex):
    """A conversion must not modify the converter it runs on: converters are memoised and shared, so state kept in one makes a
    result depend on earlier conversions (C10). The frame obligations of converter methods therefore also carry C10."""
    for k, con in side.contracts.items():
        fi = idx.funcs.get(k)
        if fi is not None and fi.cls and idx.is_subclass(fi.cls, 'Converter') and fi.node.name in PURE_CONVERTER_METHODS \
                and con.frame and 'C10' not in con.frame:
            con.frame = list(con.frame) + ['C10']
    return side


def _init(repo, cdir, lattice):
    _G['idx'] = RepoIndex(repo)
    _G['side'] = augment(Sidecar(cdir), _G['idx'])
    _G['lat'] = lattice
    _G['env'] = _env_digest(repo, cdir, _G['idx'], _G['side'], lattice) if os.environ.get('PVC_CACHE') else ''


def _sha(*parts) -> str:
    import hashlib
    h = hashlib.sha256()
    for p_ in parts:
        h.update(str(p_).encode())
        h.update(b'\0')
    return h.hexdigest()


def _env_digest(repo, cdir, idx: RepoIndex, side: Sidecar, lattice) -> str:
    """Everything a function's verification conditions can depend on besides its own text: the engine, the sidecar files, the class
    lattice, and the repository source with the bodies of the (non-nested) functions under contract blanked out - a caller sees a
    function under contract only through that contract, so a change inside one leaves every other function's conditions as they were."""
    here = os.path.dirname(os.path.abspath(__file__))
    parts = []
    for fn in sorted(os.listdir(here)):
        if fn.endswith('.py'):
            parts.append(open(os.path.join(here, fn)).read())
    for fn in sorted(os.listdir(cdir)):
        if fn.endswith('.py'):
            parts.append(open(os.path.join(cdir, fn)).read())
    parts.append(json.dumps(lattice, sort_keys=True, default=str))
    keys = set(side.contracts)
    for mod in sorted(idx.sources):
        lines = idx.sources[mod].split('\n')
        for fi in idx.funcs.values():
            if fi.module == mod and fi.key in keys and '<locals>' not in fi.qualname:
                for ln in range(fi.lineno, fi.end_lineno):        # keep the def line (signature), blank the body
                    if ln < len(lines):
                        lines[ln] = ''
        parts.append(mod + '\n' + '\n'.join(lines))
    return _sha(*parts)


def _own_text(idx: RepoIndex, key: str) -> str:
    fi = idx.funcs.get(key)
    if fi is None:
        return ''
    out = [fi.src]
    par = fi.parent
    while par:                                   # closures verified with preamble=True run their enclosing function
        pf = idx.funcs.get(f'{fi.module}:{par}')
        if pf is None:
            break
        out.append(pf.src)
        par = pf.parent
    return '\n'.join(out)


def _work(args):
    key, timeout_ms, second_ms, cross, sl, nsl = args
    cdir_ = os.environ.get('PVC_CACHE')
    cpath = None
    if cdir_:
        cpath = os.path.join(cdir_, _sha(_G['env'], key, _own_text(_G['idx'], key), timeout_ms, second_ms, cross, sl, nsl) + '.json')
        if os.path.exists(cpath):
            try:
                return json.load(open(cpath))
            except Exception:
                pass
    res = _work_uncached(args)
    if cpath and res.get('status') in ('ok', 'out_of_subset') and all(o['verdict'] in ('discharged', 'refuted') for o in res['obligations']):
        # only load-independent outcomes are cached (a timeout is not a property of the code)
        try:
            os.makedirs(cdir_, exist_ok=True)
            tmp = cpath + f'.{os.getpid()}.tmp'
            json.dump(res, open(tmp, 'w'), default=str)
            os.replace(tmp, cpath)
        except Exception:
            pass
    return res


def _work_uncached(args):
    key, timeout_ms, second_ms, cross, sl, nsl = args
    import z3
    side: Sidecar = _G['side']
    con = side.contracts.get(key) or side.lemmas.get(key)
    eng = Engine(_G['idx'], _G['lat'], side)
    res: Dict[str, Any] = {'key': key, 'status': 'ok', 'obligations': [], 'props': con.all_props(), 'file': con.file}
    t0 = time.time()
    try:
        info = eng.verify(con)
        res.update(info)
        for oi, ob in enumerate(eng.obligations):
            if oi % nsl != sl:
                continue
            eng.solve(ob, timeout_ms, second_ms, cross)
            res['obligations'].append({
                'id': ob.oid, 'func': ob.func, 'kind': ob.kind, 'label': ob.label, 'props': ob.props, 'verdict': ob.verdict,
                'backend': ob.backend, 'time_s': round(ob.time_s, 4), 'origin': ob.origin, 'path_kind': ob.path_kind,
                'route': ob.route, 'model': ob.model, 'reason': ob.reason,
            })
        # vacuity guard: some exit path must be satisfiable together with the preconditions / assumptions
        exits = [ob for ob in eng.obligations if ob.path_kind in ('return', 'raise', 'table', 'lemma')] if sl == 0 else []
        seen_pc = set()
        feasible = None
        pcs = eng.exit_pcs if (eng.exit_pcs is not None and sl == 0) else [ob.pc for ob in exits]
        for pc in pcs:
            r = eng.feasible(pc, 3000)
            if r != 'unsat':
                feasible = r
                break
        exits = pcs
        res['vacuity'] = 'ok' if (feasible or not exits) else 'ALL-EXIT-PATHS-INFEASIBLE'
        res['obligations'] = [o for o in res['obligations']]
    except OutOfSubset as e:
        res['status'] = 'out_of_subset'
        res['error'] = str(e)
    except KeyError as e:
        if getattr(con, 'optional', False) and 'not found' in str(e):
            res['status'] = 'ok'
            res['absent'] = True
            res['obligations'] = [{'id': f'{key}#absent@-', 'func': key, 'kind': 'absent', 'label': '-', 'props': con.all_props(), 'verdict': 'discharged',
                                   'backend': 'ast', 'time_s': 0.0, 'origin': 'the function is not defined: the generated default applies (assumed stdlib semantics)',
                                   'path_kind': 'table', 'route': 'complete', 'model': '', 'reason': ''}]
        else:
            res['status'] = 'missing'
            res['error'] = str(e)
    except Exception as e:
        res['status'] = 'error'
        res['error'] = traceback.format_exc()[-3000:]
    res['wall_s'] = round(time.time() - t0, 3)
    return res


def run(repo: str, cdir: str, keys: Optional[List[str]] = None, props: Optional[List[str]] = None,
        timeout_ms: int = 10000, procs: int = 16, second_ms: int = 20000, cross: bool = False) -> List[Dict[str, Any]]:
    lattice = load_lattice(repo)
    side = augment(Sidecar(cdir), RepoIndex(repo))
    allc = {**side.contracts, **side.lemmas}
    sel = []
    for k, con in allc.items():
        if con.trusted or con.bounded:
            continue
        if keys is not None and k not in keys:
            continue
        if props is not None and not (set(con.all_props()) & set(props)):
            continue
        sel.append(k)
    if not sel:
        return []
    jobs = []
    for k in sel:
        nsl = max(1, getattr(allc[k], 'slices', 1))
        # big functions first so that their slices spread over the pool
        for sl in range(nsl):
            jobs.append((k, timeout_ms, second_ms, cross, sl, nsl))
    jobs.sort(key=lambda j: -j[5])
    procs = max(1, min(procs, len(jobs)))
    if procs == 1:
        _init(repo, cdir, lattice)
        parts = [_work(j) for j in jobs]
    else:
        ctx = mp.get_context('fork')
        with ctx.Pool(procs, initializer=_init, initargs=(repo, cdir, lattice)) as pool:
            parts = pool.map(_work, jobs, chunksize=1)
    # merge the slices of one function
    merged: Dict[str, Dict[str, Any]] = {}
    for p in parts:
        m = merged.get(p['key'])
        if m is None:
            merged[p['key']] = p
        else:
            m['obligations'].extend(p['obligations'])
            m['wall_s'] = round(max(m['wall_s'], p['wall_s']), 3)
            if p['status'] != 'ok':
                m['status'] = p['status']
                m['error'] = p.get('error')
            if p.get('vacuity') not in (None, 'ok'):
                m['vacuity'] = p['vacuity']
    return [merged[k] for k in sel if k in merged]


def main(argv=None):
    import argparse
    ap = argparse.ArgumentParser()
    ap.add_argument('--repo', default='/repo')
    ap.add_argument('--contracts', default=os.path.join(os.path.dirname(os.path.dirname(os.path.abspath(__file__))), 'contracts'))
    ap.add_argument('--key', action='append')
    ap.add_argument('--prop', action='append')
    ap.add_argument('--timeout', type=int, default=10000)
    ap.add_argument('--procs', type=int, default=16)
    ap.add_argument('-v', action='store_true')
    a = ap.parse_args(argv)
    res = run(a.repo, a.contracts, a.key, a.prop, a.timeout, a.procs)
    bad = 0
    for r in res:
        obs = r['obligations']
        d = sum(1 for o in obs if o['verdict'] == 'discharged')
        print(f"{r['key']}: {r['status']} paths={r.get('paths')} obligations={len(obs)} discharged={d} wall={r['wall_s']}s")
        if r['status'] != 'ok':
            print('   ', r.get('error'))
            bad += 1
        for o in obs:
            if o['verdict'] != 'discharged' or a.v:
                print(f"    {o['verdict']:10s} {o['id']}  [{','.join(o['props'])}] {o['origin']} ({o['time_s']}s) {o['reason']}")
                if o['verdict'] == 'refuted' and a.v:
                    print('        ' + o['model'].replace('\n', '\n        ')[:1500])
                if o['verdict'] != 'discharged':
                    bad += 1
    return 1 if bad else 0


if __name__ == '__main__':
    sys.exit(main())
