"""Statements.  exec_block(stmts, st) -> list of (kind, value, State), kind in
fall | return | raise | break | continue."""
from __future__ import annotations
import ast
from typing import Any, List
import z3

from .sv import *
from .state import State, Obligation


def _has_quant(f):
    stack, seen = [f], set()
    while stack:
        x = stack.pop()
        if x.get_id() in seen:
            continue
        seen.add(x.get_id())
        if z3.is_quantifier(x):
            return True
        if z3.is_app(x):
            stack.extend(x.children())
    return False


class Stmts:
    def exec_block(self, stmts, st: State):
        outs = [('fall', None, st)]
        for s in stmts:
            nxt = []
            for kind, v, cur in outs:
                if kind != 'fall':
                    nxt.append((kind, v, cur))
                    continue
                nxt.extend(self.exec_stmt(s, cur))
            outs = nxt
            if len(outs) > self.max_paths:
                raise OutOfSubset(f'path explosion (> {self.max_paths})', s)
        return outs

    def exec_stmt(self, node, st: State):
        m = getattr(self, 'st_' + type(node).__name__, None)
        if m is None:
            raise OutOfSubset(f'statement {type(node).__name__}', node)
        return m(node, st)

    def lift(self, results, k):
        """results from ev -> statement outcomes; k(sv, st) -> list of outcomes for normal results."""
        outs = []
        for r, s in results:
            if isinstance(r, Raised):
                outs.append(('raise', r.exc, s))
            else:
                outs.extend(k(r, s))
        return outs

    # ---------------------------------------------------------------------------------
    def st_Pass(self, node, st):
        return [('fall', None, st)]

    def st_Expr(self, node, st):
        if isinstance(node.value, ast.Constant):
            return [('fall', None, st)]      # docstring
        return self.lift(self.ev(node.value, st), lambda r, s: [('fall', None, s)])

    def st_Return(self, node, st):
        if node.value is None:
            return [('return', self.none(), st)]

        def k(r, s):
            if isinstance(r, VGen):
                raise OutOfSubset('returning a generator object', node)
            return [('return', r, s)]
        return self.lift(self.ev(node.value, st), k)

    def st_Assign(self, node, st):
        def k(r, s):
            for tgt in node.targets:
                self.assign_target(tgt, r, s, node)
            return [('fall', None, s)]
        return self.lift(self.ev(node.value, st), k)

    def st_AnnAssign(self, node, st):
        if node.value is None:
            return [('fall', None, st)]

        def k(r, s):
            self.assign_target(node.target, r, s, node)
            return [('fall', None, s)]
        return self.lift(self.ev(node.value, st), k)

    def st_AugAssign(self, node, st):
        binop = ast.BinOp(left=self.as_load(node.target), op=node.op, right=node.value)
        ast.copy_location(binop, node)
        ast.fix_missing_locations(binop)

        def k(r, s):
            self.assign_target(node.target, r, s, node)
            return [('fall', None, s)]
        return self.lift(self.ev(binop, st), k)

    def as_load(self, tgt):
        import copy
        t = copy.deepcopy(tgt)
        for n in ast.walk(t):
            if hasattr(n, 'ctx'):
                n.ctx = ast.Load()
        return t

    def assign_target(self, tgt, val: SV, st: State, node=None, rebinding=False):
        th = self.th
        if isinstance(tgt, ast.Name):
            if isinstance(val, VVal) and val.cls is None and val.kind in (None, 'rec') and self.shape_of(tgt.id):
                sh = self.shape_of(tgt.id)
                val = VVal(val.term, fresh=val.fresh, kind='rec' if sh.startswith('rec:') else sh,
                           cls=sh[4:] if sh.startswith('rec:') else None, py=val.py)
            st.env[tgt.id] = val
            return
        if isinstance(tgt, (ast.Tuple, ast.List)):
            n = len(tgt.elts)
            if isinstance(val, VTuple):
                if len(val.items) != n:
                    raise OutOfSubset('unpack length mismatch', node)
                for t, v in zip(tgt.elts, val.items):
                    self.assign_target(t, v, st, node)
                return
            if isinstance(val, VVal):
                # unpacking a sequence value of unknown length: obligation-free only under a shape hint
                vt = val.term
                if not self.spec_mode:
                    self.emit(Obligation(self.cur_func_key, 'exc', f'{self.next_label()}:unpack', self.exc_props, list(st.pc),
                                         th.vlen(vt) == n, origin=f'unpacking {self.src(tgt)} needs exactly {n} items', path_kind='unpack'))
                st.add(th.vlen(vt) == n)
                for k, t in enumerate(tgt.elts):
                    self.assign_target(t, self.mkval(z3.Select(th.sq_arr(vt), k), self.shape_of(self.src(t))), st, node)
                return
            raise OutOfSubset('unpack of ' + type(val).__name__, node)
        if isinstance(tgt, ast.Attribute):
            src = self.src(tgt)
            recv = self.ev1(tgt.value, st)[0] if not isinstance(tgt.value, ast.Name) else self.lookup(tgt.value.id, st, tgt)
            if isinstance(recv, VVal):
                if not rebinding:
                    if not self.is_mutable_root(recv, st):
                        self.frame_violation(st, f'assignment to {src}', node)
                key = f'$attrs:{recv.term}'
                store = st.env.get(key)
                if not isinstance(store, VMapB):
                    store = VMapB(th.empty_set, th.dflt_map)
                nv = th.strc(tgt.attr)
                st.env[key] = VMapB(z3.Store(store.has, nv, True), z3.Store(store.get, nv, self.toVal(val, st)))
                st.env['$attrsv:' + src] = val        # keep the structured value for later reads of the same path
                if isinstance(val, VVal) and val.kind is not None:
                    if not hasattr(self, 'obj_attr_kinds'):
                        self.obj_attr_kinds = {}
                    self.obj_attr_kinds[(str(recv.term), tgt.attr)] = val.kind
                return
            raise OutOfSubset('attribute assignment', node)
        if isinstance(tgt, ast.Subscript):
            cont = self.ev1(tgt.value, st)[0]
            idx = self.ev1(tgt.slice, st)[0]
            kt = self.toVal(idx, st)
            vt = self.toVal(val, st)
            if isinstance(cont, (VMapB, VListB)):
                self.frame_ok(st, f'{self.src(tgt)} = ...')
            if isinstance(cont, VMapB):
                newc = VMapB(z3.Store(cont.has, kt, True), z3.Store(cont.get, kt, vt))
            elif isinstance(cont, VListB):
                newc = VListB(z3.Store(cont.arr, self.toInt(idx, st), vt), cont.n)
            elif isinstance(cont, VVal) and cont.kind == 'map':
                if not cont.fresh and not self.is_mutable_root(cont, st):
                    self.frame_violation(st, f'item assignment {self.src(tgt)}', node)
                newc = VMapB(z3.Store(th.m_hasA(cont.term), kt, True), z3.Store(th.m_getA(cont.term), kt, vt))
            else:
                if isinstance(cont, VVal) and not cont.fresh and not self.is_mutable_root(cont, st):
                    is_glob = str(cont.term).startswith('c!glob_')
                    self.frame_violation(st, f'item assignment {self.src(tgt)}' + (' (module-level state: later calls depend on earlier ones)' if is_glob else ''),
                                         node, extra_props=(['C10'] if is_glob else []))
                    return          # the violation is recorded; the rest of the function is still examined
                if cont is None and isinstance(tgt.value, ast.Attribute) and isinstance(tgt.value.value, ast.Name) \
                        and tgt.value.value.id in ('self', 'cls') and 'self' not in (self.cur_contract.mutable or []):
                    # state kept on the receiver of a method that is not declared to modify it
                    self.frame_violation(st, f'item assignment {self.src(tgt)} (state stored on the receiver)', node)
                    return
                raise OutOfSubset('subscript assignment on ' + type(cont).__name__, node)
            if not self.known_hashable(idx) and not self.spec_mode and isinstance(newc, VMapB):
                self.emit(Obligation(self.cur_func_key, 'exc', f'{self.next_label()}:setitem', self.exc_props, list(st.pc),
                                     th.hashable(kt), origin=f'setitem:{self.src(tgt)}:unhashable key raises TypeError', path_kind='setitem'))
                st.add(th.hashable(kt))
            self.assign_target(tgt.value, newc, st, node, rebinding=True)
            return
        raise OutOfSubset('assignment target', node)

    def st_Delete(self, node, st):
        for tgt in node.targets:
            if isinstance(tgt, ast.Subscript):
                cont = self.ev1(tgt.value, st)[0]
                idx = self.ev1(tgt.slice, st)[0]
                kt = self.toVal(idx, st)
                if isinstance(cont, VMapB):
                    self.assign_target(tgt.value, VMapB(z3.Store(cont.has, kt, False), cont.get), st, node, rebinding=True)
                    continue
                if isinstance(cont, VVal) and not cont.fresh:
                    self.frame_violation(st, f'del {self.src(tgt)}', node)
            raise OutOfSubset('del form', node)
        return [('fall', None, st)]

    def st_If(self, node, st):
        def k(c, s):
            tv = self.truth(c, s)
            tvs = z3.simplify(tv)
            if z3.is_true(tvs):
                return self.exec_block(node.body, s)
            if z3.is_false(tvs):
                return self.exec_block(node.orelse, s)
            sa, sb = s.fork().add(tv), s.fork().add(z3.Not(tv))
            a = [] if self.quick_infeasible(sa.pc) else self.exec_block(node.body, sa)
            b = [] if self.quick_infeasible(sb.pc) else self.exec_block(node.orelse, sb)
            return a + b
        return self.lift(self.ev_bool(node.test, st), k)

    def quick_infeasible(self, pc) -> bool:
        """Cheap pruning: the quantifier-free part of the path condition is already contradictory.
        (Only ever removes paths whose condition is unsatisfiable; quantified facts are ignored, so nothing is lost.)"""
        if self.spec_mode:
            return False
        qf = [f for f in pc if not _has_quant(f)]
        sl = z3.Solver()
        sl.set('timeout', 300)
        for ax in self.th.axioms(lean=True):
            sl.add(ax)
        for f in qf:
            sl.add(f)
        return sl.check() == z3.unsat

    def st_Assert(self, node, st):
        def k(c, s):
            tv = self.truth(c, s)
            s_ok = s.fork().add(tv)
            s_bad = s.fork().add(z3.Not(tv))
            r, sb = self.raise_('AssertionError', s_bad, f'assert:{self.src(node.test)[:50]}')
            return [('fall', None, s_ok), ('raise', r.exc, sb)]
        return self.lift(self.ev(node.test, st), k)

    def st_Raise(self, node, st):
        if node.exc is None:
            cur = st.env.get('$current_exc')
            if cur is None:
                raise OutOfSubset('bare raise outside handler', node)
            return [('raise', cur, st)]

        def k(r, s):
            return [('raise', self.as_exc(r, s, node), s)]
        return self.lift(self.ev(node.exc, st), k)

    def as_exc(self, r: SV, st: State, node) -> VExc:
        th = self.th
        if isinstance(r, VExc):
            return r
        if isinstance(r, VClass):
            if r.name not in th.exc:
                raise OutOfSubset(f'raise of non-exception class {r.name}', node)
            return VExc(th.exc[r.name], th.fresh('exc_' + r.name), f'raise:{r.name}')
        raise OutOfSubset('raise of a non-exception value', node)

    def st_Continue(self, node, st):
        return [('continue', None, st)]

    def st_Break(self, node, st):
        return [('break', None, st)]

    def st_Import(self, node, st):
        for a in node.names:
            st.env[a.asname or a.name.split('.')[0]] = VModule(a.name if a.asname else a.name.split('.')[0])
        return [('fall', None, st)]

    def st_ImportFrom(self, node, st):
        base = node.module or ''
        if node.level:
            parts = self.cur_module.split('.')
            base = '.'.join(parts[:len(parts) - node.level] + ([node.module] if node.module else []))
        for a in node.names:
            st.env[a.asname or a.name] = self.resolve_dotted(f'{base}.{a.name}', node)
        return [('fall', None, st)]

    def st_FunctionDef(self, node, st):
        st.env[node.name] = VFunc(node, st.env, self.cur_module, f'{self.cur_qual}.<locals>.{node.name}', frame=st.env.get('$frame'))
        return [('fall', None, st)]

    def st_Global(self, node, st):
        return [('fall', None, st)]

    # -- try / except --------------------------------------------------------------------
    def st_Try(self, node, st):
        outs = []
        for kind, v, s in self.exec_block(node.body, st):
            if kind == 'fall' and node.orelse:
                outs.extend(self.exec_block(node.orelse, s))
            elif kind != 'raise':
                outs.append((kind, v, s))
            elif node.handlers:
                outs.extend(self.dispatch_handlers(node.handlers, v, s, node))
            else:
                outs.append((kind, v, s))
        if not node.finalbody:
            return outs
        # finally: runs on every way out; a way out of the finally block itself (raise / return / break) replaces the pending one
        final = []
        for kind, v, s in outs:
            for k2, v2, s2 in self.exec_block(node.finalbody, s):
                final.append((kind, v, s2) if k2 == 'fall' else (k2, v2, s2))
        return final

    def handler_names(self, h, st):
        if h.type is None:
            return ['BaseException']
        r, _ = self.ev1(h.type, st)
        items = r.items if isinstance(r, VTuple) else (r,)
        names = []
        for it in items:
            if not isinstance(it, VClass):
                raise OutOfSubset('dynamic exception class in except', h)
            names.append(it.name)
        return names

    def dispatch_handlers(self, handlers, exc: VExc, st: State, node):
        th = self.th
        outs = []
        not_before = []
        for h in handlers:
            names = self.handler_names(h, st)
            c = z3.simplify(z3.Or([th.exc_catches(n, exc.cls) for n in names]))
            cond = z3.And(not_before + [c]) if not_before else c
            cond_s = z3.simplify(cond)
            if not z3.is_false(cond_s):
                s = st.fork()
                if not z3.is_true(cond_s):
                    s.add(cond)
                if h.name:
                    s.env[h.name] = exc
                saved = s.env.get('$current_exc')
                s.env['$current_exc'] = exc
                for kind, v, s2 in self.exec_block(h.body, s):
                    s2.env['$current_exc'] = saved
                    outs.append((kind, v, s2))
            if z3.is_true(z3.simplify(c)):
                return outs
            not_before.append(z3.Not(c))
        s = st.fork().add(*not_before)
        outs.append(('raise', exc, s))
        return outs

    def st_With(self, node, st):
        """with EXPR as NAME: body  -- context managers with an assumed contract (open_file/open/nullcontext)."""
        if len(node.items) != 1:
            raise OutOfSubset('multi-item with', node)
        item = node.items[0]

        def k(cm, s):
            th = self.th
            if not isinstance(cm, VVal):
                raise OutOfSubset('context manager value', node)
            entered = self.mkval(th.fn('cm_enter', th.Val, th.Val)(cm.term), self.shape_of('with:' + self.src(item.context_expr)))
            if item.optional_vars is not None:
                self.assign_target(item.optional_vars, entered, s, node)
            outs = []
            cnt = s.env.get('$cm_exits', VTuple(()))
            for kind, v, s2 in self.exec_block(node.body, s):
                # __exit__ runs on every way out; ghost log of exited managers
                cur = s2.env.get('$cm_exits', VTuple(()))
                s2.env['$cm_exits'] = VTuple(cur.items + (cm,))
                outs.append((kind, v, s2))
            return outs
        return self.lift(self.ev(item.context_expr, st), k)

    # -- loops -------------------------------------------------------------------------------
    def assigned_names(self, stmts) -> List[str]:
        names = []

        def add(n):
            if n not in names:
                names.append(n)

        def tgt(t):
            if isinstance(t, ast.Name):
                add(t.id)
            elif isinstance(t, (ast.Tuple, ast.List)):
                for e in t.elts:
                    tgt(e)
            elif isinstance(t, ast.Subscript):
                tgt(t.value)
            elif isinstance(t, ast.Attribute):
                if isinstance(t.value, ast.Name):
                    add('$attrsv:' + ast.unparse(t))
                    add('$attrs:' + t.value.id)
            elif isinstance(t, ast.Starred):
                tgt(t.value)
        for s in stmts:
            for n in ast.walk(s):
                if isinstance(n, (ast.FunctionDef, ast.Lambda)) and n is not s:
                    pass
                if isinstance(n, ast.Assign):
                    for t in n.targets:
                        tgt(t)
                elif isinstance(n, (ast.AugAssign, ast.AnnAssign)):
                    tgt(n.target)
                elif isinstance(n, ast.NamedExpr):
                    tgt(n.target)
                elif isinstance(n, (ast.For, ast.comprehension)):
                    if isinstance(n, ast.For):
                        tgt(n.target)
                elif isinstance(n, ast.ExceptHandler) and n.name:
                    add(n.name)
                elif isinstance(n, ast.With):
                    for it in n.items:
                        if it.optional_vars is not None:
                            tgt(it.optional_vars)
                elif isinstance(n, ast.Delete):
                    for t in n.targets:
                        tgt(t)
                elif isinstance(n, ast.Call) and isinstance(n.func, ast.Attribute) and n.func.attr in (
                        'append', 'add', 'update', 'pop', 'extend', 'setdefault', 'remove', 'discard'):
                    tgt(n.func.value)
                elif isinstance(n, ast.Call) and ((isinstance(n.func, ast.Attribute) and n.func.attr == '__setattr__') or
                                                  (isinstance(n.func, ast.Name) and n.func.id == 'setattr')) and n.args \
                        and isinstance(n.args[0], ast.Name):
                    add('$attrs:' + n.args[0].id)
                elif isinstance(n, ast.FunctionDef):
                    add(n.name)
        return names

    def havoc(self, sv: SV, name: str, st: State) -> SV:
        th = self.th
        if isinstance(sv, VBool):
            return VBool(th.fresh(name, th.B))
        if isinstance(sv, VInt):
            return VInt(th.fresh(name, th.I))
        if isinstance(sv, VMapB):
            return VMapB(th.fresh(name + '_has', th.SetA), th.fresh(name + '_get', th.MapA))
        if isinstance(sv, VSetB):
            return VSetB(th.fresh(name + '_has', th.SetA))
        if isinstance(sv, (VListB,)) or (isinstance(sv, VTuple) and sv.is_list):
            n = th.fresh(name + '_n', th.I)
            st.add(n >= 0)
            return VListB(th.fresh(name + '_arr', th.SeqA), n)
        if isinstance(sv, VVal):
            return VVal(th.fresh(name), fresh=sv.fresh, kind=sv.kind, cls=sv.cls)
        if isinstance(sv, VTuple):
            return VTuple(tuple(self.havoc(x, f'{name}_{k}', st) for k, x in enumerate(sv.items)))
        if sv is None:
            return None
        return sv

    def st_For(self, node, st):
        if node.orelse:
            raise OutOfSubset('for/else', node)

        def k(src, s):
            it = self.itersrc(src, s, node.iter)
            if it.static is not None:
                return self.unrolled_for(node, it.static, s)
            return self.invariant_for(node, it, s)
        return self.lift(self.ev(node.iter, st), k)

    def unrolled_for(self, node, items, st):
        outs = []
        cur = [st]
        for item in items:
            nxt = []
            for s in cur:
                s = s.fork()
                self.assign_target(node.target, item, s, node)
                for kind, v, s2 in self.exec_block(node.body, s):
                    if kind in ('fall', 'continue'):
                        nxt.append(s2)
                    elif kind == 'break':
                        outs.append(('fall', None, s2))
                    else:
                        outs.append((kind, v, s2))
            cur = nxt
        outs.extend(('fall', None, s) for s in cur)
        return outs

    def loop_ordinal(self, node) -> int:
        """Syntactic ordinal of a loop: pre-order position among the for/while statements of the function under
        verification (nested defs excluded); loops of inlined callees get ordinals after those."""
        k = id(node)
        if k not in self.loop_ids:
            self.loop_ids[k] = 1000 + len(self.loop_ids)
        return self.loop_ids[k]

    def loop_invariant(self, ordinal: int):
        con = self.cur_contract
        if con is None:
            return None
        return con.invariants.get(ordinal)

    def eval_invariant(self, inv_lam, i_term, st: State, extra=None):
        names = [p.arg for p in inv_lam.args.args]
        env = {}
        for k2, v2 in st.env.items():
            if k2.startswith('$'):
                env[k2] = v2
        for n in names:
            if n == 'it':
                env[n] = VInt(i_term)
            elif n.endswith('0') and n[:-1] in self.entry_env:
                env[n] = self.entry_env[n[:-1]]
            elif extra and n in extra:
                env[n] = extra[n]
            elif n in st.env and st.env[n] is not None:
                env[n] = st.env[n]
            elif n in self.entry_env:
                env[n] = self.entry_env[n]
            else:
                raise OutOfSubset(f'loop invariant refers to unknown name {n}')
        return self.eval_clause(inv_lam, env, st)

    def invariant_for(self, node, it: VIter, st: State):
        """L2 route: inductive invariant from the sidecar (default True), keyed by loop ordinal."""
        th = self.th
        ordinal = self.loop_ordinal(node)
        inv = self.loop_invariant(ordinal)
        if getattr(self, 'loops_changed', False) and self.depth == 0:
            inv = None
        assigned = self.assigned_names(node.body + [ast.Assign(targets=[node.target], value=ast.Constant(value=None))])
        marker = None
        if inv is None and self.depth == 0 and [n for n in assigned if not n.startswith('$')]:
            why = ('the function no longer has the number of loops its invariants were written for' if getattr(self, 'loops_changed', False)
                   else f'loop {ordinal} (line {node.lineno}) has no invariant')
            marker = z3.Bool('needs_invariant!' + why)
        props = self.cur_props
        outs = []
        route = 'L2'
        # 1. initialisation
        if inv is not None:
            g0 = self.eval_invariant(inv, z3.IntVal(0), st)
            self.emit(Obligation(self.cur_func_key, 'inv.init', f'loop{ordinal}', props, list(st.pc), g0,
                                 origin=f'loop {ordinal} invariant holds on entry', path_kind='loop', route=route))

        def havoc_state(tag):
            s = st.fork()
            for n in assigned:
                if n in s.env and s.env[n] is not None:
                    s.env[n] = self.havoc(s.env[n], f'{n}_{tag}', s)
                elif n.startswith('$attrs:'):
                    s.env[n] = self.havoc(VMapB(th.empty_set, th.dflt_map), f'attrs_{tag}', s)
                elif n not in s.env:
                    s.env[n] = None     # possibly unbound
            return s
        # 2. step from an arbitrary iteration i
        i = th.fresh('it', th.I)
        s = havoc_state('h')
        s.add(i >= 0, i < it.n)
        if marker is not None:
            s.add(marker)
        keep = it.keep(i, s) if it.keep is not None else None
        if inv is not None:
            s.add(self.eval_invariant(inv, i, s))
        elem = it.at(i, s)
        body_states = [s]
        if keep is not None:
            # filtered-out element: state unchanged, invariant must still advance
            s_skip = s.fork().add(z3.Not(keep))
            if inv is not None:
                g = self.eval_invariant(inv, i + 1, s_skip)
                self.emit(Obligation(self.cur_func_key, 'inv.step', f'loop{ordinal}:skip', props, list(s_skip.pc),
                                     g, origin=f'loop {ordinal} invariant preserved (filtered element)',
                                     path_kind='loop', route=route))
            s.add(keep)
        self.assign_target(node.target, elem, s, node)
        self.loop_index_stack.append(i)
        try:
            body_outs = self.exec_block(node.body, s)
        finally:
            self.loop_index_stack.pop()
        for pk, (kind, v, s2) in enumerate(body_outs):
            if kind in ('fall', 'continue'):
                if inv is not None:
                    g = self.eval_invariant(inv, i + 1, s2)
                    self.emit(Obligation(self.cur_func_key, 'inv.step', f'loop{ordinal}:p{pk}', props, list(s2.pc),
                                         g, origin=f'loop {ordinal} invariant preserved by the body',
                                         path_kind='loop', route=route))
            elif kind == 'break':
                outs.append(('fall', None, s2))
            else:
                outs.append((kind, v, s2))
        # 3. exit: all n elements processed
        s_exit = havoc_state('x')
        s_exit.add(it.n >= 0)
        if marker is not None:
            s_exit.add(marker)
        if inv is not None:
            s_exit.add(self.eval_invariant(inv, it.n, s_exit))
        outs.append(('fall', None, s_exit))
        return outs

    def st_While(self, node, st):
        """while with a sidecar invariant (and variant, for termination)."""
        th = self.th
        ordinal = self.loop_ordinal(node)
        inv = self.loop_invariant(ordinal)
        var = self.cur_contract.variants.get(ordinal) if self.cur_contract else None
        if inv is None or getattr(self, 'loops_changed', False):
            raise OutOfSubset('while loop without a sidecar invariant (or the loops of the function changed)', node)
        assigned = self.assigned_names(node.body)
        props = self.cur_props
        outs = []
        g0 = self.eval_invariant(inv, z3.IntVal(0), st)
        self.emit(Obligation(self.cur_func_key, 'inv.init', f'loop{ordinal}', props, list(st.pc),
                             g0, origin=f'while {ordinal} invariant on entry', path_kind='loop', route='L2'))

        def havoc_state(tag):
            s = st.fork()
            for n in assigned:
                if n in s.env and s.env[n] is not None:
                    s.env[n] = self.havoc(s.env[n], f'{n}_{tag}', s)
            return s
        s = havoc_state('w')
        s.add(self.eval_invariant(inv, z3.IntVal(0), s))
        v0 = None
        if var is not None:
            v0 = self.toInt(self.eval_clause_sv(var, s), s)
        for r, s1 in self.ev(node.test, s):
            if isinstance(r, Raised):
                outs.append(('raise', r.exc, s1))
                continue
            tv = self.truth(r, s1)
            s_in = s1.fork().add(tv)
            s_out = s1.fork().add(z3.Not(tv))
            outs.append(('fall', None, s_out))
            for pk, (kind, v, s2) in enumerate(self.exec_block(node.body, s_in)):
                if kind in ('fall', 'continue'):
                    g = self.eval_invariant(inv, z3.IntVal(0), s2)
                    self.emit(Obligation(self.cur_func_key, 'inv.step', f'loop{ordinal}:p{pk}', props, list(s2.pc),
                                         g, origin=f'while {ordinal} invariant preserved',
                                         path_kind='loop', route='L2'))
                    if var is not None:
                        v1 = self.toInt(self.eval_clause_sv(var, s2), s2)
                        self.emit(Obligation(self.cur_func_key, 'term', f'loop{ordinal}:p{pk}', props, list(s2.pc),
                                             z3.And(v0 >= 0, v1 < v0), origin=f'while {ordinal} variant decreases (termination)',
                                             path_kind='loop', route='L2'))
                elif kind == 'break':
                    outs.append(('fall', None, s2))
                else:
                    outs.append((kind, v, s2))
        return outs

    def eval_clause_sv(self, lam, st):
        names = [p.arg for p in lam.args.args]
        env = {n: (st.env[n] if n in st.env else self.entry_env[n]) for n in names}
        saved = (self.cur_module, self.spec_mode)
        self.cur_module, self.spec_mode = '$spec', True
        try:
            n0 = len(st.pc)
            r, s2 = self.ev1(lam.body, State(env, list(st.pc), st.notes))
            for f in s2.pc[n0:]:
                st.pc.append(f)
            return r
        finally:
            self.cur_module, self.spec_mode = saved

    # -- class instantiation -----------------------------------------------------------------------
    def call_class(self, c: VClass, args, kwargs, st, node):
        th = self.th
        name = c.name
        if name in th.exc:
            # exception construction; ConvertError carries its tree
            if name == 'ConvertError' and len(args) == 1:
                rec = self.make_record('ConvertError', [self.toVal(args[0], st)], st)
                return [(VExc(th.exc[name], rec.term, f'raise:{name}'), st)]
            a = [self.toVal(x, st) for x in args if not isinstance(x, VGen)]
            ev = th.fn(f'mkexc_{len(a)}', th.Exc, *([th.Val] * len(a)), th.Val)(th.exc[name], *a)
            if name == 'UnsupportedAnnotation' and len(a) == 1:
                st.add(th.fld('obj')(ev) == a[0])
            return [(VExc(th.exc[name], ev, f'raise:{name}'), st)]
        if name == 'TracebackException':
            return self.bi_traceback_TracebackException(args, kwargs, st, node)
        h = getattr(self, 'bi_' + name, None)
        if name in ('tuple', 'list', 'set', 'frozenset', 'dict', 'str', 'bool', 'type') and h is not None:
            return h(args, kwargs, st, node)
        fl = self.record_fields(name)
        if fl is not None:
            vals = []
            supplied = dict(kwargs)
            pos = list(args)
            init_fields = [(n, m) for n, m in fl if m.get('init', True)]
            if len(pos) > len(init_fields):
                raise OutOfSubset(f'too many arguments for record {name}', node)
            by_name = {}
            for (n, m), v in zip(init_fields, pos):
                by_name[n] = v
            for k2, v in supplied.items():
                by_name[k2] = v
            for n, m in fl:
                if n in by_name:
                    vals.append(self.toVal(by_name[n], st))
                elif m.get('factory') is not None:
                    fsrc = ast.unparse(m['factory'])
                    if fsrc.startswith('set'):
                        vals.append(self.toVal(VSetB(th.empty_set), st))
                    elif fsrc.startswith('dict'):
                        vals.append(self.toVal(VMapB(th.empty_set, th.dflt_map), st))
                    elif fsrc.startswith('list'):
                        vals.append(self.toVal(VTuple((), True), st))
                    else:
                        vals.append(th.const(f'factory:{name}.{n}'))
                elif m.get('default') is not None:
                    old = (self.cur_module, self.spec_mode)
                    ci = self.idx.classes.get(name)
                    self.cur_module, self.spec_mode = (ci.module if ci else self.cur_module), True
                    try:
                        dv, _ = self.ev1(m['default'], State({}, st.pc))
                    finally:
                        self.cur_module, self.spec_mode = old
                    vals.append(self.toVal(dv, st))
                elif not m.get('init', True):
                    vals.append(th.const(f'uninit:{name}.{n}'))
                else:
                    raise OutOfSubset(f'missing argument {n} for record {name}', node)
            rec = self.make_record(name, vals, st)
            # dataclass __post_init__ of repo records: run it if it exists (e.g. FieldSpec)
            return [(rec, st)]
        # other classes: instantiation is an opaque (possibly raising) call on the class object
        ci = self.idx.classes.get(name)
        if ci is not None:
            init = self.idx.find_method(name, '__init__')
            key = f'{init.module}:{init.qualname}' if init is not None else None
            if key is not None and key in self.contracts:
                # the new object is a deterministic function of the constructor arguments (so that a specification can
                # denote "the converter built by K(args)"); its state is what __init__'s contract ensures
                f0 = VFunc(init.node, {}, init.module, init.qualname, self_sv=None, cls=name)
                penv = self.bind_params(init.node, [self.none()] + list(args), kwargs, st, module=init.module)
                pn = [p.arg for p in init.node.args.posonlyargs + init.node.args.args + init.node.args.kwonlyargs][1:]
                argv = [self.toVal(penv[p], st) for p in pn]
                t_ = th.fn('new_' + name, *([th.Val] * len(argv)), th.Val)(*argv) if argv else th.const('new0:' + name)
                obj = VVal(t_, fresh=True, kind='rec' if not self.idx.is_subclass(name, 'Converter') else 'conv', cls=None)
                st.add(obj.term != th.NoneV, th.isc(name)(obj.term))
                f = VFunc(init.node, {}, init.module, init.qualname, self_sv=obj, cls=name)
                res = []
                for r, s in self.apply_contract(self.contracts[key], f, obj, args, kwargs, st, node):
                    res.append((r, s) if isinstance(r, Raised) else (obj, s))
                return res
        if ci is not None and not self.spec_mode:
            r_ = self.instantiate_plain_class(ci, args, kwargs, st, node)
            if r_ is not None:
                return r_
            st.add(z3.Bool(f'needs_contract!{ci.module}:{name}'))
        return self.call_value(VVal(th.clsc(name), kind='callable'), args, kwargs, st, node)

    def instantiate_plain_class(self, ci, args, kwargs, st, node):
        """A small helper class defined in the repository, without a contract: follow its __init__ on a fresh object (attributes it
        assigns become facts about the object) and, if it defines __call__, give the object the definitional axioms of a closure.
        Returns None when the class is not that simple (then the caller treats the constructor as an opaque callee needing a contract)."""
        th = self.th
        name = ci.name
        if ci.is_dataclass or self.idx.is_subclass(name, 'Converter') or self.idx.is_subclass(name, 'PaneBase') or name in th.exc:
            return None
        init = self.idx.find_method(name, '__init__')
        if init is None or init.cls != name and init.cls is None:
            return None
        if any(isinstance(n, (ast.Yield, ast.YieldFrom, ast.While, ast.With, ast.Try)) for n in ast.walk(init.node)):
            return None
        obj = VVal(th.fresh('obj_' + name), fresh=True, kind='rec', cls=name)
        f = VFunc(init.node, {}, init.module, init.qualname, self_sv=obj, cls=init.cls or name)
        s0 = st.fork()
        s0.add(obj.term != th.NoneV, th.isc(name)(obj.term))
        n_obl = len(self.obligations)
        try:
            outs = self.inline_call(f, list(args), dict(kwargs), s0, node, self_sv=obj)
        except OutOfSubset:
            del self.obligations[n_obl:]
            return None
        res = []
        for r, s in outs:
            if isinstance(r, Raised):
                res.append((r, s))
                continue
            facts = []
            store = s.env.get(f'$attrs:{obj.term}')
            if isinstance(store, VMapB):
                g = store.get
                seen = set()
                while z3.is_app(g) and g.decl().kind() == z3.Z3_OP_STORE:
                    k_, v_ = g.arg(1), g.arg(2)
                    nm = th.str_of_const(k_) if hasattr(th, 'str_of_const') else None
                    if nm is not None and nm not in seen:
                        seen.add(nm)
                        facts.append(th.fld(nm)(obj.term) == v_)
                        facts.append(th.has_attr(nm)(obj.term))
                    g = g.arg(0)
            s.add(*facts)
            callm = self.idx.find_method(name, '__call__')
            if callm is not None:
                cf = VFunc(callm.node, {}, callm.module, callm.qualname, self_sv=obj, cls=callm.cls or name)
                object.__setattr__(cf, '_prefacts', list(facts))
                self.summarize_closure(cf, obj.term)
            res.append((obj, s))
        return res

    def class_attr_call(self, c: VClass, attr, args, kwargs, st, node):
        th = self.th
        if c.name == 'object' and attr == '__setattr__':
            return self.do_setattr(args[0], args[1], args[2], st, node)
        if c.name == 'dict' and attr == 'fromkeys':
            raise OutOfSubset('dict.fromkeys', node)
        # unknown classmethod on a known class: opaque user-style call
        f = VVal(th.const(f'clsattr:{c.name}.{attr}'), kind='callable')
        return self.call_value(f, args, kwargs, st, node)

    def call_method_dunder(self, v, name, args, st, node):
        raise OutOfSubset(f'operator method {name}', node)

    def star_display(self, node, st, is_list):
        """(*a, b, *c): concatenation; statically known parts stay static, symbolic parts go through a list builder."""
        def k(vs, s):
            if all(isinstance(v, VTuple) for e, v in zip(node.elts, vs) if isinstance(e, ast.Starred)):
                items = []
                for e, v in zip(node.elts, vs):
                    if isinstance(e, ast.Starred):
                        items.extend(v.items)
                    else:
                        items.append(v)
                return [(VTuple(tuple(items), is_list), s)]
            if len(node.elts) == 1 and isinstance(node.elts[0], ast.Starred):
                # (*xs,) / [*xs] is tuple(xs) / list(xs)
                return self.container_ctor('list' if is_list else 'tuple', [vs[0]], s, None)
            th = self.th
            b = VListB(th.dflt_seq, z3.IntVal(0))
            results = [(b, s)]
            for e, v in zip(node.elts, vs):
                nxt = []
                for cur, s2 in results:
                    if isinstance(cur, Raised):
                        nxt.append((cur, s2))
                        continue
                    if not isinstance(e, ast.Starred):
                        nxt.append((VListB(z3.Store(cur.arr, cur.n, self.toVal(v, s2)), cur.n + 1), s2))
                        continue
                    srcs = self.consume(v, s2) if isinstance(v, VGen) else [(v, s2)]
                    for g, s3 in srcs:
                        if isinstance(g, Raised):
                            nxt.append((g, s3))
                            continue
                        if isinstance(g, VGen):
                            mats = self.materialize(g, 'list', s3, node)
                        else:
                            mats = [(g, s3)]
                        for m, s4 in mats:
                            if isinstance(m, Raised):
                                nxt.append((m, s4))
                                continue
                            src = self.itersrc(m, s4, e.value)
                            if src.static is not None:
                                c2 = cur
                                for it_ in src.static:
                                    c2 = VListB(z3.Store(c2.arr, c2.n, self.toVal(it_, s4)), c2.n + 1)
                                nxt.append((c2, s4))
                                continue
                            if src.keep is not None:
                                raise OutOfSubset('starred filtered source', node)
                            nxt.append((self.concat_list(cur, src, s4), s4))
                results = nxt
            out = []
            for r, s2 in results:
                if isinstance(r, Raised) or is_list:
                    out.append((r, s2))
                else:
                    t = th.mk_tuple(r.arr, r.n)
                    s2.add(th.vlen(t) == r.n, th.sq_arr(t) == r.arr, th.isc('tuple')(t), t != th.NoneV)
                    out.append((VVal(t, fresh=True, kind='seq'), s2))
            return out
        return self.bind(self.evs([e.value if isinstance(e, ast.Starred) else e for e in node.elts], st), k)
