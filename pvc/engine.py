"""pvc engine: sidecar contracts + symbolic execution of the real AST -> obligations -> z3."""
from __future__ import annotations
import ast
import os
import time
import traceback as _tb
from dataclasses import dataclass, field
from typing import Any, Dict, List, Optional, Tuple
import z3

from .sv import *
from .state import State, Obligation
from .theory import Theory, load_lattice
from .repoindex import RepoIndex
from .ex_core import Core
from .ex_expr import Expr
from .ex_call import Calls
from .ex_builtin import Builtins
from .ex_stmt import Stmts


_THEORY = None


@dataclass
class Contract:
    key: str                                   # "pane.converters:TupleConverter.try_convert"
    file: str = ''
    shapes: Dict[str, str] = field(default_factory=dict)
    requires: List[Tuple[ast.Lambda, List[str], str]] = field(default_factory=list)
    assumes: List[Tuple[ast.Lambda, List[str], str]] = field(default_factory=list)
    returns_iff: Optional[Tuple[ast.Lambda, List[str]]] = None
    ensures: List[Tuple[ast.Lambda, List[str], str]] = field(default_factory=list)
    raises: Optional[Tuple[ast.Lambda, List[str]]] = None
    no_raise: Optional[List[str]] = None
    invariants: Dict[int, ast.Lambda] = field(default_factory=dict)
    variants: Dict[int, ast.Lambda] = field(default_factory=dict)
    total: bool = False
    result_kind: Optional[str] = None
    result_fresh: bool = False
    result_opaque: bool = False                # result is a fresh unconstrained value at every call (arguments not recorded)
    mutable: List[str] = field(default_factory=list)
    frame: List[str] = field(default_factory=lambda: ['C09'])
    props: List[str] = field(default_factory=list)
    total_attr_roots: List[str] = field(default_factory=list)
    trusted: bool = False                      # contract assumed, body not verified (listed in evidence)
    note: str = ''
    lemma: bool = False                        # pure spec lemma: no code, goal must be valid
    at_calls: Dict[str, Any] = field(default_factory=dict)   # call-site assertions keyed by the source text of the callee expression
    decorators: List[Any] = field(default_factory=list)   # [(source text of a decorator the function must carry, [props])]
    accepts: List[str] = field(default_factory=list)   # documented keyword parameters the function must accept
    optional: bool = False                     # the function may be absent (e.g. a method a dataclass generates unless written by hand)
    bounded: bool = False                      # decided only by the bounded run-time contract check (never counted as proved)
    raises_assumed: bool = False               # the exceptional postcondition is assumed for callers, not checked on the body
    slices: int = 1                            # solve the obligations of this function in this many parallel slices
    preamble: bool = False                     # closures: execute the enclosing function up to the def to obtain the environment
    table: bool = False                        # module-level value (literal table / stock object)

    def all_props(self) -> List[str]:
        ps = set(self.props) | set(self.frame if not self.trusted else [])
        if self.returns_iff:
            ps |= set(self.returns_iff[1])
        if self.raises:
            ps |= set(self.raises[1])
        if self.no_raise:
            ps |= set(self.no_raise)
        for _l, p, _k in self.ensures:
            ps |= set(p)
        for _d, p in (self.decorators or []):
            ps |= set(p)
        for _k2, (_lam, p) in (self.at_calls or {}).items():
            ps |= set(p)
        return sorted(ps)


class Sidecar:
    """Parses /verif/contracts/*.py with ast (never executed by the verifier)."""
    def __init__(self, cdir: str):
        self.contracts: Dict[str, Contract] = {}
        self.lemmas: Dict[str, Contract] = {}
        self.spec_funcs: Dict[str, ast.FunctionDef] = {}
        self.assumption_scan: List[str] = []
        self.loop_headers: Dict[str, list] = {}
        lp = os.path.join(cdir, 'loops.json')
        if os.path.exists(lp):
            import json as _json
            self.loop_headers = _json.load(open(lp))
        self.signatures: Dict[str, list] = {}
        sp = os.path.join(cdir, 'signatures.json')
        if os.path.exists(sp):
            import json as _json
            self.signatures = _json.load(open(sp))
        for fn in sorted(os.listdir(cdir)):
            if not fn.endswith('.py'):
                continue
            src = open(os.path.join(cdir, fn)).read()
            tree = ast.parse(src, filename=fn)
            self.consts: Dict[str, Any] = {}
            for st in tree.body:
                if isinstance(st, ast.Assign) and len(st.targets) == 1 and isinstance(st.targets[0], ast.Name):
                    # module-level constant (shape tables): literals and dict(...) of earlier constants only
                    self.consts[st.targets[0].id] = eval(compile(ast.Expression(st.value), fn, 'eval'),
                                                         {'__builtins__': {'dict': dict}}, dict(self.consts))
                    continue
                if isinstance(st, ast.FunctionDef):
                    self.spec_funcs[st.name] = st
                elif isinstance(st, ast.Expr) and isinstance(st.value, ast.Call) and isinstance(st.value.func, ast.Name) \
                        and st.value.func.id in ('SPEC', 'LEMMA', 'TABLE'):
                    self._spec(st.value, fn)
            for ln, line in enumerate(src.splitlines(), 1):
                if any(w in line for w in ('assumes=', 'trusted=True', 'raises_assumed=True')):
                    self.assumption_scan.append(f'{fn}:{ln}: {line.strip()[:120]}')

    def _lit(self, node):
        try:
            return ast.literal_eval(node)
        except ValueError:
            return eval(compile(ast.Expression(node), '<sidecar>', 'eval'), {'__builtins__': {'dict': dict}}, dict(self.consts))

    def _clauses(self, node, default_kind):
        """lambda | (lambda, [props]) | (lambda, [props], kind) | list of those."""
        items = node.elts if isinstance(node, ast.List) else [node]
        out = []
        for it in items:
            if isinstance(it, ast.Lambda):
                out.append((it, [], default_kind))
            elif isinstance(it, ast.Tuple):
                lam = it.elts[0]
                props = self._lit(it.elts[1]) if len(it.elts) > 1 else []
                kind = self._lit(it.elts[2]) if len(it.elts) > 2 else default_kind
                out.append((lam, props, kind))
            else:
                raise ValueError(f'bad clause in sidecar: {ast.unparse(it)[:80]}')
        return out

    def _spec(self, call: ast.Call, fn: str):
        is_lemma = call.func.id == 'LEMMA'
        if call.func.id == 'TABLE':
            mod, name = self._lit(call.args[0]), self._lit(call.args[1])
            con = Contract(key=f'{mod}:{name}', file=fn, table=True)
        elif is_lemma:
            name = self._lit(call.args[0])
            con = Contract(key='lemma:' + name, file=fn, lemma=True)
        else:
            mod, qual = self._lit(call.args[0]), self._lit(call.args[1])
            con = Contract(key=f'{mod}:{qual}', file=fn)
        for kw in call.keywords:
            k, v = kw.arg, kw.value
            if k == 'shapes':
                con.shapes = self._lit(v)
            elif k == 'requires':
                con.requires = self._clauses(v, 'pre')
            elif k == 'assumes':
                con.assumes = self._clauses(v, 'assume')
            elif k == 'returns_iff':
                c = self._clauses(v, 'acc')[0]
                con.returns_iff = (c[0], c[1])
            elif k == 'ensures':
                con.ensures = self._clauses(v, 'post')
            elif k == 'raises':
                c = self._clauses(v, 'exc')[0]
                con.raises = (c[0], c[1])
            elif k == 'no_raise':
                con.no_raise = self._lit(v)
            elif k == 'invariants':
                con.invariants = {self._lit(kk): vv for kk, vv in zip(v.keys, v.values)}
            elif k == 'at_calls':
                # {"<source text of the called expression>": (lambda <names in scope>: ..., [props])}: must hold whenever that call is made
                con.at_calls = {self._lit(kk): (vv.elts[0], self._lit(vv.elts[1])) for kk, vv in zip(v.keys, v.values)}
            elif k == 'variants':
                con.variants = {self._lit(kk): vv for kk, vv in zip(v.keys, v.values)}
            elif k in ('total', 'result_kind', 'result_fresh', 'result_opaque', 'preamble', 'slices', 'raises_assumed', 'bounded', 'optional', 'accepts', 'mutable', 'frame', 'props', 'total_attr_roots', 'trusted', 'note', 'uses_old', 'decorators'):
                setattr(con, k, self._lit(v))
            elif k == 'goal' and is_lemma:
                con.ensures = self._clauses(v, 'lemma')
            elif k == 'forall' and is_lemma:
                con.shapes = self._lit(v)        # variable name -> kind
            else:
                raise ValueError(f'unknown SPEC keyword {k} in {fn}')
        (self.lemmas if is_lemma else self.contracts)[con.key] = con


def _decl_names(f):
    out, todo, seen = set(), [f], set()
    while todo:
        x = todo.pop()
        if x.get_id() in seen:
            continue
        seen.add(x.get_id())
        if z3.is_app(x):
            out.add(x.decl().name())
            todo.extend(x.children())
        elif z3.is_quantifier(x):
            todo.append(x.body())
    return out


def _bool_consts(f):
    out, todo, seen = [], [f], set()
    while todo:
        x = todo.pop()
        if x.get_id() in seen:
            continue
        seen.add(x.get_id())
        if z3.is_const(x) and z3.is_bool(x) and x.decl().kind() == z3.Z3_OP_UNINTERPRETED:
            out.append(x)
        elif z3.is_app(x):
            todo.extend(x.children())
    return out


class Engine(Core, Expr, Calls, Builtins, Stmts):
    RECORDS: Dict[str, list] = {}

    def __init__(self, idx: RepoIndex, lattice: dict, sidecar: Sidecar, max_paths=4000):
        self.idx = idx
        global _THEORY
        if _THEORY is None:
            _THEORY = Theory(lattice)
        self.th = _THEORY
        self.sidecar = sidecar
        self.contracts = sidecar.contracts
        self.RECORDS = {
            'ConvertError': [('tree', {'init': True})],
        }
        self.spec_funcs = {n: VFunc(f, {}, '$spec', n) for n, f in sidecar.spec_funcs.items()}
        self.max_paths = max_paths
        self.reset()

    def reset(self):
        self.spec_mode = False
        self.cur_module = ''
        self.cur_class = None
        self.cur_qual = ''
        self.cur_func_key = ''
        self.cur_func_key_inline_guard = ''
        self.cur_contract: Optional[Contract] = None
        self.cur_props: List[str] = []
        self.exc_props: List[str] = ['C04']
        self.frame_props: List[str] = ['C09']
        self.obligations: List[Obligation] = []
        self.depth = 0
        self.loop_counter = 0
        self.loop_index_stack = []
        self.label_ctr = 0
        self.entry_env: Dict[str, SV] = {}
        self.standing: List[Any] = []
        self.iter_facts_added = set()
        self.kept_cache = set()
        self.frame_sites = set()
        self.alias_cache = {}
        self.loop_ids = {}
        self.func_summ = set()
        self.notes = []
        self.exit_pcs = None
        self.lemma_sink = None
        self.hashable_terms = set()
        self.mutable_terms = set()
        self.map_value_kind: Dict[str, str] = {}
        self.total_attr_roots = set()
        self.replaced = []
        self.frame_ctr = 0
        self.th.used_cls = set()
        self.th.used_attrs = set()

    # ------------------------------------------------------------------
    def next_label(self) -> str:
        self.label_ctr += 1
        return f'o{self.label_ctr}'

    def emit(self, ob: Obligation):
        self.obligations.append(ob)

    def shape_of(self, key: Optional[str]) -> Optional[str]:
        if key is None:
            return None
        over = getattr(self, '_shape_over', None)
        if over:
            # clauses of a callee's contract are read with the shape hints of THAT contract
            for sh in reversed(over):
                if key in sh:
                    return sh[key]
        if self.cur_contract is None:
            return None
        return self.cur_contract.shapes.get(key)

    def mkval(self, term, kind=None, **kw) -> VVal:
        """VVal from a shape string; 'rec:Field' also fixes the static class."""
        if kind and kind.startswith('rec:'):
            return VVal(term, kind='rec', cls=kind[4:], **kw)
        return VVal(term, kind=kind, **kw)

    # ------------------------------------------------------------------
    def verify(self, con: Contract) -> Dict[str, Any]:
        """Symbolically execute the function under `con` and return its obligations (unsolved)."""
        self.reset()
        t0 = time.time()
        if con.lemma:
            return self.verify_lemma(con)
        if con.table:
            return self.verify_table(con)
        if con.key.endswith('@decorators'):
            # structure-only contract: which decorators the function carries (e.g. make_converter is memoised in the mode under contract)
            fi = self.idx.func(con.key[:-len('@decorators')])
            self.cur_func_key = con.key
            have = [ast.unparse(d) for d in fi.node.decorator_list]
            for dec_src, dec_props in (con.decorators or []):
                self.emit(Obligation(con.key, 'decorator', dec_src[:40], dec_props, [], z3.BoolVal(have == [dec_src]),
                                     origin=f"the function is decorated with exactly @{dec_src} (has: {', '.join('@' + h for h in have) or 'none'})",
                                     path_kind='table'))
            self.exit_pcs = []
            return {'key': con.key, 'paths': 1, 'returns': 1, 'raises': 0, 'exec_s': time.time() - t0,
                    'lines': [fi.lineno, fi.lineno], 'sha': fi.sha}
        fi = self.idx.func(con.key)
        th = self.th
        self.cur_module, self.cur_qual, self.cur_class = fi.module, fi.qualname, fi.cls
        self.cur_func_key = con.key
        self.cur_func_key_inline_guard = con.key
        self.cur_contract = con
        self.cur_props = con.all_props()
        self.frame_props = con.frame
        self.exc_props = (con.raises[1] if con.raises else (con.no_raise or ['C04']))
        self.total_attr_roots = set(con.total_attr_roots)
        fnode = fi.node
        # syntactic loop ordinals of this function
        n_loop = 0
        stack = list(reversed(fnode.body))
        while stack:
            nd = stack.pop()
            if isinstance(nd, (ast.FunctionDef, ast.Lambda, ast.ClassDef)):
                continue
            if isinstance(nd, (ast.For, ast.While)):
                self.loop_ids[id(nd)] = n_loop
                n_loop += 1
            stack.extend(reversed([c for c in ast.iter_child_nodes(nd) if isinstance(c, (ast.stmt, ast.ExceptHandler))]))
        # invariants are keyed by loop ordinal: if the function no longer has the number of loops its invariants were written for, the
        # ordinals do not identify those loops any more -> invariants are not applied, and what then fails is 'needs re-anchoring'
        base = self.sidecar.loop_headers.get(con.key)
        self.loops_changed = base is not None and len(base) != n_loop
        a = fnode.args
        env: Dict[str, SV] = {}
        pnames = [p.arg for p in a.posonlyargs + a.args + a.kwonlyargs]
        base_sig = self.sidecar.signatures.get(con.key)
        defaults = dict(zip([p.arg for p in (a.posonlyargs + a.args)][len(a.posonlyargs + a.args) - len(a.defaults):], a.defaults))
        defaults.update({k_.arg: d_ for k_, d_ in zip(a.kwonlyargs, a.kw_defaults) if d_ is not None})
        for p in pnames:
            if base_sig is not None and p not in base_sig and p in defaults:
                # a parameter the contract was not written for (added later, with a default): the function is verified as its existing
                # callers use it, i.e. with the default; a call site that passes the parameter is flagged 'needs contract'
                try:
                    env[p] = self.ev1(defaults[p], State({}, []))[0]
                    continue
                except OutOfSubset:
                    pass
            kind = con.shapes.get(p)
            sv = self.mkval(z3.Const(p, th.Val), kind, fresh=False)
            env[p] = sv
            if p in con.mutable:
                self.mutable_terms.add(str(sv.term))
        if a.vararg is not None:
            env[a.vararg.arg] = VVal(z3.Const(a.vararg.arg, th.Val), kind='seq')
            pnames.append(a.vararg.arg)
        if a.kwarg is not None:
            env[a.kwarg.arg] = VVal(z3.Const(a.kwarg.arg, th.Val), kind='map', fresh=True)
            pnames.append(a.kwarg.arg)
        # closures: the enclosing function is executed up to the closure's definition, with ITS parameters symbolic
        # (shape hints "free:<name>"); whatever it binds before the def is the closure's environment
        pre_pc = []
        if fi.parent is not None and not con.preamble:
            for k, kind in con.shapes.items():
                if k.startswith('free:'):
                    env[k[5:]] = self.mkval(z3.Const(k[5:], th.Val), kind or None)
                    pnames.append(k[5:])
        if fi.parent is not None and con.preamble:
            pfi = self.idx.func(f'{fi.module}:{fi.parent}')
            pa = pfi.node.args
            penv: Dict[str, SV] = {}
            for p in [x.arg for x in pa.posonlyargs + pa.args + pa.kwonlyargs]:
                penv[p] = self.mkval(z3.Const(p, th.Val), con.shapes.get('free:' + p))
            for k, kind in con.shapes.items():
                if k.startswith('free:') and k[5:] not in penv:
                    penv[k[5:]] = self.mkval(z3.Const(k[5:], th.Val), kind or None)
            self.frame_ctr += 1
            penv['$frame'] = self.frame_ctr
            pst = State(penv, [])
            saved_qual = self.cur_qual
            self.cur_qual = pfi.qualname
            pre = []
            for stmt in pfi.node.body:
                if stmt is fi.node or any(n is fi.node for n in ast.walk(stmt)):
                    break
                pre.append(stmt)
            saved_obs = self.obligations
            self.obligations = []
            try:
                outs0 = self.exec_block(pre, pst)
            finally:
                self.obligations = saved_obs
                self.cur_qual = saved_qual
            falls = [s for k, v, s in outs0 if k == 'fall']
            if len(falls) != 1:
                raise OutOfSubset(f'enclosing function {fi.parent} does not reach the closure on exactly one path')
            pst = falls[0]
            pre_pc = list(pst.pc)
            for k, v in pst.env.items():
                if k not in env and not k.startswith('$') and v is not None:
                    env[k] = v
                    pnames.append(k)
        for nm in con.accepts:
            self.emit(Obligation(con.key, 'sig', nm, con.props or con.all_props(), [], z3.BoolVal(nm in pnames),
                                 origin=f'the documented keyword parameter {nm!r} is accepted', path_kind='table'))
        self.entry_env = dict(env)
        self.frame_ctr += 1
        env['$frame'] = self.frame_ctr
        st = State(dict(env), list(pre_pc))
        for (lam, _p, _k) in con.requires + con.assumes:
            st.add(self.eval_clause(lam, env, st))
        npre = len(st.pc)
        outs = self.exec_block(fnode.body, st)
        # ---- obligations from exits -------------------------------------------------------
        for pi, (kind, v, s) in enumerate(outs):
            label = f'p{pi}'
            if kind in ('return', 'fall'):
                rv = v if kind == 'return' else self.none()
                if isinstance(rv, VExc):
                    rv = VVal(rv.val)
                renv = dict(self.entry_env)
                renv['result'] = rv
                self.add_final_env(renv, s)
                if con.returns_iff is not None:
                    g = self.eval_clause(con.returns_iff[0], self.entry_env, s)
                    self.emit(Obligation(con.key, 'acc', label, con.returns_iff[1], list(s.pc), g,
                                         origin='normal return implies the acceptance predicate', path_kind='return'))
                for (lam, props, ck) in con.ensures:
                    try:
                        g = self.eval_clause(lam, renv, s)
                    except ClauseNotApplicable:
                        continue
                    self.emit(Obligation(con.key, ck, label, props, list(s.pc), g,
                                         origin=f'postcondition [{ck}] on normal return', path_kind='return'))
            elif kind == 'raise':
                exc: VExc = v
                xenv = dict(self.entry_env)
                xenv['exc'] = exc
                if con.raises is not None and not con.raises_assumed:
                    g = self.eval_clause(con.raises[0], xenv, s)
                    self.emit(Obligation(con.key, 'exc', label, con.raises[1], list(s.pc), g,
                                         origin=f'exception leaving the function is allowed (raised at {exc.origin})', path_kind='raise'))
                elif con.no_raise is not None:
                    self.emit(Obligation(con.key, 'exc', label, con.no_raise, list(s.pc), z3.BoolVal(False),
                                         origin=f'function must not raise (raised at {exc.origin})', path_kind='raise'))
                if con.returns_iff is not None:
                    g = self.eval_clause(con.returns_iff[0], self.entry_env, s)
                    is_pi = th.exc_catches('ParseInterrupt', exc.cls)
                    self.emit(Obligation(con.key, 'acc', label, con.returns_iff[1], list(s.pc), z3.Implies(is_pi, z3.Not(g)),
                                         origin=f'ParseInterrupt implies the acceptance predicate is false (raised at {exc.origin})',
                                         path_kind='raise'))
            else:
                raise OutOfSubset(f'{kind} escaped the function body')
        self.exit_pcs = [list(s.pc) for k, _v, s in outs if k in ('return', 'fall')] + [list(s.pc) for k, _v, s in outs if k == 'raise']
        if con.no_raise is not None and not any(k == 'raise' for k, _v, _s in outs):
            self.emit(Obligation(con.key, 'exc', 'none', con.no_raise, [], z3.BoolVal(True),
                                 origin='no exceptional exit exists on any path', path_kind='return'))
        n_ret = sum(1 for k, _v, _s in outs if k in ('return', 'fall'))
        n_raise = sum(1 for k, _v, _s in outs if k == 'raise')
        return {'key': con.key, 'paths': len(outs), 'returns': n_ret, 'raises': n_raise, 'exec_s': time.time() - t0,
                'lines': (fi.lineno, fi.end_lineno), 'sha': fi.sha}

    def add_final_env(self, renv, s: State):
        """expose final values of locals / attribute stores to postconditions as `final_<name>`."""
        for k, v in s.env.items():
            if k.startswith('$') or v is None:
                continue
            renv.setdefault('final_' + k, v)

    def verify_table(self, con: Contract):
        """Module-level value: evaluate the real assignment's right-hand side and check `ensures(value)`."""
        t0 = time.time()
        mod, name = con.key.split(':')
        if (mod, name) not in self.idx.mod_consts:
            raise KeyError(f'module-level name {con.key} not found')
        expr = self.idx.mod_consts[(mod, name)]
        self.cur_module, self.cur_qual, self.cur_class = mod, name, None
        self.cur_func_key = con.key
        self.cur_func_key_inline_guard = con.key
        self.cur_contract = con
        self.cur_props = con.all_props()
        self.frame_ctr += 1
        st = State({'$frame': self.frame_ctr}, [])
        outs = self.ev(expr, st)
        for pi, (r, s) in enumerate(outs):
            if isinstance(r, Raised):
                self.emit(Obligation(con.key, 'exc', f'p{pi}', con.all_props(), list(s.pc), z3.BoolVal(False),
                                     origin=f'evaluating the module-level value raises ({r.exc.origin})', path_kind='raise'))
                continue
            env = {'value': r}
            self.entry_env = env
            for (lam, props, ck) in con.ensures:
                g = self.eval_clause(lam, env, s)
                self.emit(Obligation(con.key, ck, f'p{pi}', props, list(s.pc), g, origin=f'module-level value satisfies [{ck}]', path_kind='table'))
        src = ast.unparse(expr)
        import hashlib
        return {'key': con.key, 'paths': len(outs), 'returns': len(outs), 'raises': 0, 'exec_s': time.time() - t0,
                'lines': (expr.lineno, expr.end_lineno), 'sha': hashlib.sha256(src.encode()).hexdigest()[:16]}

    def verify_lemma(self, con: Contract):
        t0 = time.time()
        th = self.th
        self.cur_module = '$spec'
        self.cur_func_key = con.key
        self.cur_contract = con
        env = {n: VVal(z3.Const(n, th.Val), kind=(k or None)) for n, k in con.shapes.items()}
        self.entry_env = dict(env)
        st = State(dict(env), [])
        for (lam, _p, _k) in con.requires + con.assumes:
            st.add(self.eval_clause(lam, env, st))
        for n, (lam, props, ck) in enumerate(con.ensures):
            g = self.eval_clause(lam, env, st)
            self.emit(Obligation(con.key, 'lemma', f'g{n}', props, list(st.pc), g, origin='specification lemma', path_kind='lemma'))
        return {'key': con.key, 'paths': 0, 'returns': 0, 'raises': 0, 'exec_s': time.time() - t0, 'lines': (0, 0), 'sha': ''}

    # ------------------------------------------------------------------
    def solve(self, ob: Obligation, timeout_ms=10000, second_ms=20000, cross=False):
        """Discharge one obligation.  Verdicts:
        discharged  - unsat of pc & not goal
        refuted     - sat (counter-model attached)
        unproved    - the solver gave up for a reason other than time (incomplete quantifiers / arrays):
                      the proof fails, a candidate model may be attached
        undecided   - timeout in every back end
        Back ends: z3 (python API, z3-solver wheel) first; the Debian /usr/bin/z3 (an older, independent
        build) takes what the first leaves open, and re-checks every unsat when cross=True."""
        t0 = time.time()
        g = z3.simplify(ob.goal) if z3.is_expr(ob.goal) else ob.goal
        if z3.is_true(g):
            ob.verdict, ob.backend, ob.time_s = 'discharged', 'simplify', time.time() - t0
            return ob
        def mk(lean, ms):
            sl = z3.Solver()
            sl.set('timeout', ms)
            for ax in self.th.axioms(lean=lean):
                sl.add(ax)
            for f in self.standing:
                sl.add(f)
            for f in ob.pc:
                sl.add(f)
            sl.add(z3.Not(ob.goal))
            return sl
        # 1. lean axiom set (ground instances of the int-embedding / length facts only): fewer hypotheses, so an
        #    unsat here is a proof; a sat here is a counter-model candidate, confirmed against the full set below
        s = mk(True, timeout_ms)
        r = s.check()
        lean_model = None
        if r == z3.sat:
            lean_model = self.model_summary(s.model(), ob)
            s2 = mk(False, max(2000, timeout_ms // 2))
            r2 = s2.check()
            if r2 == z3.unsat:
                s, r = s2, r2
            elif r2 == z3.sat:
                s, r = s2, r2
            # unknown under the full set: keep the lean counter-model
        elif r != z3.unsat:
            s2 = mk(False, timeout_ms)
            r2 = s2.check()
            if r2 in (z3.sat, z3.unsat):
                s, r = s2, r2
            else:
                # still open: one long attempt on the lean set (only obligations that fail to discharge pay for it, so a
                # loaded machine does not turn a counter-model into "undecided")
                s3 = mk(True, timeout_ms * 6)
                r3 = s3.check()
                if r3 == z3.sat:
                    lean_model = self.model_summary(s3.model(), ob)
                    s, r = s3, r3
                elif r3 == z3.unsat:
                    s, r = s3, r3
                else:
                    s = s2
        ob.backend = 'z3-' + z3.get_version_string()
        if r == z3.unsat:
            ob.verdict = 'discharged'
            if cross:
                r2, why2 = self.second_backend(s, second_ms)
                ob.backend += f'+z3cli({r2})'
                if r2 == 'sat':
                    ob.verdict, ob.reason = 'backend-disagreement', 'z3 python API says unsat, /usr/bin/z3 says sat'
        elif r == z3.sat:
            ob.verdict = 'refuted'
            ob.model = lean_model or self.model_summary(s.model(), ob)
            if lean_model:
                ob.reason = 'counter-model found'
        else:
            why = s.reason_unknown()
            ob.reason = why
            try:
                ob.model = self.model_summary(s.model(), ob)
            except Exception:
                pass
            r2, why2 = self.second_backend(s, second_ms) if second_ms else ('skipped', '')
            ob.backend += f'+z3cli({r2})'
            if r2 == 'unsat':
                ob.verdict = 'discharged'
            elif r2 == 'sat':
                ob.verdict = 'refuted'
                ob.reason = f'{why}; /usr/bin/z3: sat'
            elif 'timeout' in why or 'canceled' in why:
                ob.verdict = 'undecided' if ('timeout' in why2 or r2 in ('timeout', 'skipped')) else 'unproved'
                ob.reason = f'{why}; /usr/bin/z3: {r2} {why2}'
            else:
                ob.verdict = 'unproved'
                ob.reason = f'{why}; /usr/bin/z3: {r2} {why2}'
        if ob.verdict in ('refuted', 'unproved'):
            # a path that went through a repository class / function which has no contract (and could not be followed): the
            # counter-model ranges over behaviours that callee may not have, so it is no refutation - the callee needs a contract
            consts = [a.decl().name() for f in ob.pc if z3.is_expr(f) for a in _bool_consts(f)]
            need = sorted({c[len('needs_contract!'):] for c in consts if c.startswith('needs_contract!')})
            if need:
                ob.verdict = 'undecided'
                ob.reason = f'needs contract: the path calls {", ".join(need)} (defined in the repository, not under contract); was: {ob.reason}'
            needi = sorted({c[len('needs_invariant!'):] for c in consts if c.startswith('needs_invariant!')})
            if needi and ob.kind != 'frame' and ob.verdict in ('refuted', 'unproved'):
                # the path went through a loop that has no invariant (a new loop, or the loops of the function are no longer the ones
                # the invariants were written for): everything the loop assigns is unconstrained there, so this is not a refutation
                ob.verdict = 'undecided'
                ob.reason = f'needs invariant: {"; ".join(needi)}; was: {ob.reason}'
        if ob.verdict in ('refuted', 'unproved') and z3.is_expr(ob.goal):
            # text is built by uninterpreted string functions (f-string skeletons, str.format, join ...): two spellings of the same text are
            # different terms, so a "counter-model" to an equality between texts is not a refutation; the run-time contract decides those
            names = _decl_names(ob.goal)
            sb = sorted(n for n in names if n.startswith(('fstr_', 'meth_format', 'meth_join', 'str_concat', 'str_mod')))
            if sb:
                ob.verdict = 'undecided'
                ob.reason = f'text equality over uninterpreted string builders ({", ".join(sb[:3])}): decided by the run-time contract check only; was: {ob.reason}'
        ob.time_s = time.time() - t0
        return ob

    def feasible(self, pc, ms=3000):
        s = z3.Solver()
        s.set('timeout', ms)
        for ax in self.th.axioms(lean=True):
            s.add(ax)
        for f in self.standing:
            s.add(f)
        for f in pc:
            s.add(f)
        r = s.check()
        return 'unsat' if r == z3.unsat else ('sat' if r == z3.sat else 'unknown')

    def second_backend(self, solver, ms):
        import subprocess
        import tempfile
        z3cli = '/usr/bin/z3'
        if not os.path.exists(z3cli):
            return 'skipped', 'no /usr/bin/z3'
        try:
            with tempfile.NamedTemporaryFile('w', suffix='.smt2', delete=False) as f:
                f.write(solver.to_smt2())
                path = f.name
            try:
                p = subprocess.run([z3cli, f'-T:{max(1, ms // 1000)}', path], capture_output=True, text=True, timeout=ms / 1000 + 10)
                out = (p.stdout or '').strip().splitlines()
                first = out[0].strip() if out else ''
                if first in ('sat', 'unsat'):
                    return first, ''
                if first == 'timeout':
                    return 'timeout', 'timeout'
                return 'unknown', ' '.join(out)[:200]
            finally:
                os.unlink(path)
        except subprocess.TimeoutExpired:
            return 'timeout', 'timeout'
        except Exception as e:   # a crashing back end decides nothing
            return 'error', str(e)[:200]

    def model_summary(self, m, ob: Obligation) -> str:
        lines = []
        try:
            for d in m.decls():
                nm = d.name()
                if d.arity() == 0 and not nm.startswith('c!') and '!' not in nm[:2]:
                    lines.append(f'{nm} = {m[d]}')
            # truth value of each path-condition atom helps reading the counterexample
            for f in ob.pc[:60]:
                if z3.is_quantifier(f):
                    continue
                try:
                    v = m.eval(f, model_completion=False)
                    txt = str(f).replace('\n', ' ')
                    if len(txt) < 160:
                        lines.append(f'  [{v}] {txt}')
                except Exception:
                    pass
        except Exception as e:   # a model we cannot print is still a refutation
            lines.append(f'<model not printable: {e}>')
        return '\n'.join(lines)[:6000]
