"""Calls: repo functions (by contract or inlined), IConv interface, user callables, builtins, comprehensions."""
from __future__ import annotations
import ast
from typing import Any, Dict, List, Optional
import z3

from .sv import *
from .state import State, Obligation


class Calls:
    ICONV_METHODS = ('try_convert', 'collect_errors', 'convert', 'into_data', 'expected')
    # opaque methods on values: name -> may-raise spec: None (total) | list of exception names | 'any'
    VAL_METHODS = {
        'copy': None, 'pop': None, 'items': None, 'keys': None, 'values': None, 'get': None,
        'isoformat': None, 'fromisoformat': ['ValueError'], 'lower': None, 'upper': None, 'title': None,
        'islower': None, 'isupper': None, 'istitle': None, 'join': None, 'startswith': None, 'lstrip': None,
        'rstrip': None, 'split': None, 'append': None, 'add': None, 'update': None, 'setdefault': None,
        'time': None, 'date': None, 'timetz': None, 'format': None, 'format_exception_only': None,
        'reconfigure': 'any', 'readable': None, 'writable': None, 'getvalue': None, 'bind': ['TypeError'],
        'cond_name': None, 'has_default': None, 'replace_typevars': None, 'make_field': 'any',
        'write': 'any', 'read': 'any', 'close': None, 'extend': None, 'fromkeys': None, 'discard': None,
        'remove': ['KeyError', 'ValueError'], 'index': ['ValueError'], 'count': None, 'endswith': None,
        'strip': None, 'encode': ['UnicodeError'], 'decode': ['UnicodeError'], 'print_error': None,
    }
    KNOWN_FUNCS = {'re.compile', 're.split', 'traceback.TracebackException', 'traceback.format_exception',
                   'itertools.chain', 'itertools.chain.from_iterable', 'functools.reduce', 'operator.or_',
                   'typing.cast', 'typing.get_origin', 'typing.get_args', 'inspect.isabstract',
                   'dataclasses.replace', 'dataclasses.field', 'copy.deepcopy', 'math.isfinite',
                   'math.isclose', 'math.ceil', 'warnings.warn', 'contextlib.nullcontext', 'json.load', 'json.dump',
                   'yaml.load', 'yaml.load_all', 'yaml.dump', 'datetime.datetime.combine', 'itertools.zip_longest',
                   'functools.update_wrapper', 'sys.stdout'}
    SPEC_BUILTINS = {'forall', 'exists', 'forall_val', 'exists_val', 'implies', 'acc', 'out', 'err', 'ser', 'expected_of',
                     'is_none', 'hashable', 'callraises', 'call', 'fresh_obj', 'is_int_key', 'int_key', 'ite', 'attr',
                     'has_attr', 'catches', 'exc_is', 'iff', 'dynattr', 'truthy', 'key_at', 'idx_of', 'old', 'is_fresh',
                     'seq_of', 'card', 'same_elements', 'typeof', 'callv', 'callvraises', 'isinst_dyn', 'lt', 'unhashable_any',
                     'mhas', 'mget', 'shas', 'without_key', 're_compile_raises', 're_compile', 'as_map', 'as_seq', 'as_set', 'sat', 'slen', 'mlen', 'methraises', 'methcall', 'gen_of', 'nth_where', 'count_where', 'ghost', 'zlen', 'isfinite', 'ret_make_converter', 'ret_into_data', 'ret', 'retc', 'clsref', 'attr_named', 'ext', 'did_call', 'exited', 'cm_enter', 'clsref_dotted', 'List', 'ghost_int', 'id_of', 'fnref', 'called', 'hash_of', 'forall_bools4', 'methv', 'getattr', 'kept_seq', 'get_origin', 'get_args', 'callraises_as', 'isabstract', 'issub', 'closure_of', 'closure_free', 'deepcopy_of', 'made'}

    # ------------------------------------------------------------------------------------
    def ev_Call(self, node, st):
        # t.cast(T, e) == e ; never evaluate the type argument
        if isinstance(node.func, ast.Attribute) and node.func.attr == 'cast' and len(node.args) == 2:
            return self.ev(node.args[1], st)

        def k_func(f, s):
            pos_nodes = node.args
            kw_nodes = node.keywords
            ac = getattr(self.cur_contract, 'at_calls', None) if not self.spec_mode and self.depth == 0 else None
            if ac and self.src(node.func) in ac:
                lam, props = ac[self.src(node.func)]
                s_at = s.fork()
                goal = self.eval_clause(lam, s_at.env, s_at)
                self.emit(Obligation(self.cur_func_key, 'at-call', f'{self.next_label()}', props, list(s_at.pc), goal,
                                     origin=f'call-site condition at {self.src(node.func)}(...) (line {node.lineno})', path_kind='call'))
            if any(isinstance(a, ast.Starred) for a in pos_nodes) or any(k.arg is None for k in kw_nodes):
                return self.call_starred(f, node, s)
            # spec quantifiers take lambdas unevaluated
            if isinstance(f, VBuiltin) and f.name in ('spec.forall', 'spec.exists', 'spec.forall_val', 'spec.exists_val'):
                return self.spec_quant(f.name[5:], node, s)
            if isinstance(f, VBuiltin) and f.name == 'spec.old':
                # old(E): E read in the state the function was entered in (attribute writes made by the body are not visible)
                env0 = {k_: v_ for k_, v_ in s.env.items() if not (k_.startswith('$attrs:') or k_.startswith('$attrsv:'))}
                r_, s2_ = self.ev1(node.args[0], State(env0, list(s.pc), list(s.notes)))
                s.pc.extend(s2_.pc[len(s.pc):])
                return [(r_, s)]
            if isinstance(f, VBuiltin) and f.name == 'spec.kept_seq':
                # kept_seq("tuple"|"list", n, lambda i: keep, lambda i: elem): the value a filtered comprehension builds
                target = node.args[0].value
                nsv, _ = self.ev1(node.args[1], s)
                n_ = self.toInt(nsv, s)
                i_ = self.th.fresh('i', self.th.I)
                outs_ = []
                for lam in node.args[2:4]:
                    env = dict(s.env)
                    env[lam.args.args[0].arg] = VInt(i_)
                    r_, s2_ = self.ev1(lam.body, State(env, [], []))
                    outs_.append((r_, s2_))
                keep_ = self.truth(outs_[0][0], outs_[0][1])
                val_ = self.toVal(outs_[1][0], outs_[1][1])
                g_ = VGen(n=n_, idx=i_, ok=z3.BoolVal(True), val=val_, excs=(), keep=keep_, facts=tuple(outs_[0][1].pc + outs_[1][1].pc))
                return self.materialize(g_, target, s, node)
            if isinstance(f, VBuiltin) and f.name == 'spec.forall_bools4':
                # finite quantifier: all 16 assignments of four booleans
                lam = node.args[0]
                conj = []
                import itertools
                for combo in itertools.product([False, True], repeat=4):
                    env = dict(s.env)
                    for a_, b_ in zip(lam.args.args, combo):
                        env[a_.arg] = VBool(z3.BoolVal(b_))
                    r, s2 = self.ev1(lam.body, State(env, s.pc, s.notes))
                    conj.append(self.truth(r, s2))
                return [(VBool(z3.And(conj)), s)]
            if isinstance(f, VBuiltin) and f.name in ('spec.nth_where', 'spec.count_where'):
                return self.spec_where(f.name[5:], node, s)
            if isinstance(f, VBuiltin) and f.name == 'spec.gen_of':
                return self.spec_gen_of(node, s)
            if isinstance(f, VBuiltin) and f.name in ('spec.implies', 'spec.ite'):
                return self.spec_lazy(f.name[5:], node, s)

            def k_args(vs, s2):
                args = vs[:len(pos_nodes)]
                kwargs = {k.arg: v for k, v in zip(kw_nodes, vs[len(pos_nodes):])}
                return self.call_sv(f, args, kwargs, s2, node)
            return self.bind(self.evs(list(pos_nodes) + [k.value for k in kw_nodes], s), k_args)
        return self.bind(self.ev(node.func, st), k_func)

    def call_starred(self, f, node, st):
        """f(*seq) / f(*a, x, **kw): supported for user callables and repo constructors via callv."""
        if len(node.args) == 1 and isinstance(node.args[0], ast.Starred):
            kws_named = [k for k in node.keywords if k.arg is not None]
            kws_star = [k for k in node.keywords if k.arg is None]

            def k(vs, s):
                seq = vs[0]
                named = {kw.arg: v for kw, v in zip(kws_named, vs[1:1 + len(kws_named)])}
                stars = vs[1 + len(kws_named):]
                return self.call_star(f, seq, named, stars, s, node)
            return self.bind(self.evs([node.args[0].value] + [k.value for k in kws_named] + [k.value for k in kws_star], st), k)
        if node.args and not any(isinstance(a, ast.Starred) for a in node.args) and any(k.arg is None for k in node.keywords):
            kws_named = [k for k in node.keywords if k.arg is not None]
            kws_star = [k for k in node.keywords if k.arg is None]
            npos = len(node.args)

            def k(vs, s):
                pos = VTuple(tuple(vs[:npos]))
                named = {kw.arg: v for kw, v in zip(kws_named, vs[npos:npos + len(kws_named)])}
                stars = vs[npos + len(kws_named):]
                return self.call_star(f, pos, named, stars, s, node)
            return self.bind(self.evs(list(node.args) + [k.value for k in kws_named] + [k.value for k in kws_star], st), k)
        if not node.args and len(node.keywords) >= 1 and any(k.arg is None for k in node.keywords):
            kws_named = [k for k in node.keywords if k.arg is not None]
            kws_star = [k for k in node.keywords if k.arg is None]

            def k(vs, s):
                named = {kw.arg: v for kw, v in zip(kws_named, vs[:len(kws_named)])}
                stars = vs[len(kws_named):]
                return self.call_star(f, None, named, stars, s, node)
            return self.bind(self.evs([k.value for k in kws_named] + [k.value for k in kws_star], st), k)
        raise OutOfSubset('star-args call form', node)

    def call_star(self, f, seq, named, stars, st, node):
        th = self.th
        if isinstance(f, VBuiltin) and f.name == 'spec.callv':
            pass
        if isinstance(f, VBuiltin) and f.name in ('builder.update', 'valmeth.update') and seq is None and len(stars) == 1 and f.recv is not None:
            # d.update(**m, k=v) is d.update(m, k=v) (keyword names are strings)
            return self.call_builtin(f, [stars[0]], named, st, node)
        if isinstance(f, VBuiltin) and f.name == 'dataclasses.replace' and isinstance(seq, VTuple) and len(seq.items) == 1 and len(stars) == 1 \
                and not named:
            # dataclasses.replace(obj, **changes): functional record update (assumed stdlib contract)
            obj, ch = seq.items[0], stars[0]
            cname = (obj.cls if isinstance(obj, VVal) and obj.cls else None) or self.cur_class
            fl = self.idx.dataclass_fields(cname) if cname and cname in self.idx.classes else None
            if fl is None or not isinstance(ch, (VMapB, VVal)):
                raise OutOfSubset('dataclasses.replace on an unknown record class', node)
            has, get = (ch.has, ch.get) if isinstance(ch, VMapB) else (th.m_hasA(ch.term), th.m_getA(ch.term))
            ov = self.toVal(obj, st)
            r = th.fresh('replaced')
            facts = [r != th.NoneV, th.isc(cname)(r), th.type_of(r) == th.type_of(ov)]
            for n_, _m in fl:
                kt = th.strc(n_)
                facts.append(th.fld(n_)(r) == z3.If(z3.Select(has, kt), z3.Select(get, kt), th.fld(n_)(ov)))
            st.add(*facts)
            return [(VVal(r, fresh=True, kind='rec', cls=cname), st)]
        if isinstance(f, VBuiltin) and f.name.startswith('supermeth.'):
            return [(self.none(), st)]
        if isinstance(f, VBuiltin) and f.name == 'dataclasses.replace':
            pass
        elif isinstance(seq, VTuple) and not stars:
            return self.call_sv(f, list(seq.items), named, st, node)
        if isinstance(f, VFunc) and seq is not None and not stars and f.node.args.vararg is not None \
                and not (f.node.args.posonlyargs + f.node.args.args)[(1 if (f.self_sv is not None and not self.is_staticmethod(f.node)) else 0):]:
            # f(*seq, **named) where f only has *varargs: the vararg IS the sequence
            key = f'{f.module}:{f.qual}'
            con = self.contracts.get(key)
            if con is not None:
                vt = self.toVal(seq, st)
                seqv = VVal(vt, kind='seq')
                return self.apply_contract(con, f, None if self.is_staticmethod(f.node) else f.self_sv, [], named, st, node, vararg=seqv)
        if isinstance(f, VClass) and f.name in th.exc:
            ev_ = th.fn('mkexc_v', th.Exc, th.Val, th.Val)(th.exc[f.name], self.toVal(seq, st) if seq is not None else th.NoneV)
            return [(VExc(th.exc[f.name], ev_, f'raise:{f.name}'), st)]
        # opaque variadic application: deterministic in (fn, positional sequence, keyword mapping)
        if isinstance(f, VBuiltin) and f.name.startswith('valmeth.') and f.recv is not None:
            # method of an opaque value called with */** arguments, e.g. sig.bind(*args, **kwargs)
            meth = f.name[8:]
            rv = self.toVal(f.recv, st)
            sv_ = self.toVal(seq, st) if seq is not None else th.NoneV
            kv_ = self.toVal(stars[0], st) if stars else th.NoneV
            res_ = th.fn('methv_' + meth, th.Val, th.Val, th.Val, th.Val)(rv, sv_, kv_)
            out_ = self.mkval(res_, self.shape_of('.' + meth + '()'), fresh=True)
            spec = self.VAL_METHODS.get(meth)
            if self.spec_mode or spec is None:
                return [(out_, st)]
            cr_ = th.fn('methvraises_' + meth, th.Val, th.Val, th.Val, th.B)(rv, sv_, kv_)
            s_ok = st.fork().add(z3.Not(cr_))
            s_ex = st.fork().add(cr_)
            if spec == 'any':
                exc_ = VExc(th.fresh('exc_cls', th.Exc), th.fresh('excv'), f'{meth}:{self.src(node)}')
            else:
                ecv = th.fresh('exc_cls', th.Exc)
                s_ex.add(z3.Or([ecv == th.exc[e] for e in spec]))
                exc_ = VExc(ecv if len(spec) > 1 else th.exc[spec[0]], th.fresh('excv'), f'{meth}:{self.src(node)}')
            return [(out_, s_ok), (Raised(exc_), s_ex)]
        fv = self.toVal(f, st)
        sv = self.toVal(seq, st) if seq is not None else th.NoneV
        kv = th.NoneV
        if stars:
            if len(stars) != 1:
                raise OutOfSubset('multiple ** in call', node)
            kv = self.toVal(stars[0], st)
        names = '_'.join(sorted(named))
        args = [fv, sv, kv] + [self.toVal(named[k], st) for k in sorted(named)]
        sig = [th.Val] * len(args)
        res = th.fn('callv_' + names, *sig, th.Val)(*args)
        cr = th.fn('callvraises_' + names, *sig, th.B)(*args)
        ec = th.fn('callvexc_' + names, *sig, th.Exc)(*args)
        ev = th.fn('callvexcv_' + names, *sig, th.Val)(*args)
        if self.spec_mode or self.is_total_callable(f, node):
            return [(VVal(res, fresh=True), st)]
        g = self.ghost_raises(node)
        if g is not None:
            cr = g
        s_ok = st.fork().add(z3.Not(cr))
        s_ex = st.fork().add(cr)
        return [(VVal(res, fresh=True), s_ok), (Raised(VExc(ec, ev, f'call:{self.src(node.func)}')), s_ex)]

    # ------------------------------------------------------------------------------------
    def call_sv(self, f: SV, args: List[SV], kwargs: Dict[str, SV], st: State, node=None):
        if isinstance(f, VFunc):
            return self.call_func(f, args, kwargs, st, node)
        if isinstance(f, VBuiltin):
            return self.call_builtin(f, args, kwargs, st, node)
        if isinstance(f, VClass):
            return self.call_class(f, args, kwargs, st, node)
        if isinstance(f, VVal):
            # a value that is (after simplification) the constant of a module-level repo function: call that function
            ft = z3.simplify(f.term)
            if z3.is_const(ft) and ft.decl().name() in getattr(self, 'fn_by_const', {}):
                return self.call_func(self.fn_by_const[ft.decl().name()], args, kwargs, st, node)
            return self.call_value(f, args, kwargs, st, node)
        raise OutOfSubset(f'call of {type(f).__name__}', node)

    def ghost_raises(self, node):
        """shape 'ghostcall:NAME' on a call target: whether this call raises is the spec predicate
        NAME(<entry parameters>) -- sound when the arguments are a deterministic function of the entry
        parameters and the callee is deterministic (assumption A-user)."""
        if node is None or not hasattr(node, 'func'):
            return None
        sh = self.shape_of(self.src(node.func))
        if not sh or not sh.startswith('ghostcall:'):
            return None
        th = self.th
        ps = [self.toVal(v, State({}, [])) for k, v in self.entry_env.items() if not k.startswith('$')]
        return th.fn('ghost_' + sh[10:], *([th.Val] * len(ps)), th.B)(*ps)

    # -- user callables --------------------------------------------------------------------
    def is_total_callable(self, f, node) -> bool:
        if isinstance(f, VVal) and f.kind == 'total':
            return True
        if node is not None and hasattr(node, 'func') and self.shape_of(self.src(node.func)) == 'total':
            return True
        return False

    def call_value(self, f: VVal, args, kwargs, st, node):
        th = self.th
        names = sorted(kwargs)
        a = [f.term] + [self.toVal(x, st) for x in args] + [self.toVal(kwargs[k], st) for k in names]
        n = len(a) - 1
        suffix = ('_kw_' + '_'.join(names)) if names else ''
        sig = [th.Val] * (n + 1)
        res = th.fn(f'call_{n}{suffix}', *sig, th.Val)(*a)
        rk = self.shape_of(self.src(node.func) + '()') if node is not None else None
        resv = self.mkval(res, rk, fresh=False)
        total = self.is_total_callable(f, node)
        if self.spec_mode:
            return [(resv, st)]
        cr = th.fn(f'craises_{n}{suffix}', *sig, th.B)(*a)
        ec = th.fn(f'cexc_{n}{suffix}', *sig, th.Exc)(*a)
        ev = th.fn(f'cexcv_{n}{suffix}', *sig, th.Val)(*a)
        origin = f'call:{self.src(node.func) if node is not None else "?"}'
        g = self.ghost_raises(node)
        if g is not None:
            cr = g

        if rk == 'new':
            resv = VVal(res, fresh=True, kind=None)

        def finish(s2):
            log = s2.env.get('$calls')
            s2.env['$calls'] = VTuple((log.items if isinstance(log, VTuple) else ()) + (VVal(f.term),))
            if total:
                return [(resv, s2)]
            s_ok = s2.fork().add(z3.Not(cr))
            s_ex = s2.fork().add(cr)
            return [(resv, s_ok), (Raised(VExc(ec, ev, origin)), s_ex)]
        # lazily produced arguments (generators) may raise while the callee consumes them
        gens = [x for x in args if isinstance(x, VGen)]
        if gens:
            if len(gens) > 1:
                raise OutOfSubset('two generator arguments', node)
            res_list = []
            for r, s2 in self.consume(gens[0], st):
                if isinstance(r, Raised):
                    res_list.append((r, s2))
                else:
                    res_list.extend(finish(s2))
            return res_list
        return finish(st)

    # -- IConv ---------------------------------------------------------------------------------
    def call_iconv(self, meth: str, recv: VVal, args, kwargs, st, node):
        th = self.th
        c = recv.term
        if meth == 'expected':
            p = self.toVal(args[0], st) if args else (self.toVal(kwargs['plural'], st) if 'plural' in kwargs else th.FalseV)
            t = th.expd(c, p)
            st.add(th.isc('str')(t))
            return [(VVal(t, kind='str'), st)]
        if len(args) != 1:
            raise OutOfSubset(f'{meth} arity', node)
        v = self.toVal(args[0], st)
        if meth == 'try_convert':
            if self.spec_mode:
                return [(VVal(th.out(c, v)), st)]
            s_ok = st.fork().add(th.acc(c, v))
            s_ex = st.fork().add(z3.Not(th.acc(c, v)))
            return [(VVal(th.out(c, v)), s_ok), self.raise_('ParseInterrupt', s_ex, f'iconv:{self.src(node)}')]
        if meth == 'collect_errors':
            e = th.err(c, v)
            st.add(e != th.NoneV, th.isc('ErrorNode')(e), z3.Not(th.isc('DuplicateKeyError')(e)))
            return [(VVal(z3.If(th.acc(c, v), th.NoneV, e)), st)]
        if meth == 'into_data':
            return [(VVal(th.ser(c, v)), st)]
        if meth == 'convert':
            if self.spec_mode:
                return [(VVal(th.out(c, v)), st)]
            s_ok = st.fork().add(th.acc(c, v))
            s_ex = st.fork().add(z3.Not(th.acc(c, v)))
            e = th.err(c, v)
            s_ex.add(e != th.NoneV, th.isc('ErrorNode')(e), z3.Not(th.isc('DuplicateKeyError')(e)))
            ce = self.make_record('ConvertError', [e], s_ex)
            return [(VVal(th.out(c, v)), s_ok),
                    (Raised(VExc(th.exc['ConvertError'], ce.term, f'iconv:{self.src(node)}')), s_ex)]
        raise OutOfSubset(meth, node)

    # -- repo functions ---------------------------------------------------------------------
    def bind_params(self, fnode, args, kwargs, st, self_sv=None, module=None):
        """Python parameter binding for a FunctionDef/Lambda; defaults evaluated in the callee's module."""
        a = fnode.args
        env = {}
        params = [p.arg for p in a.posonlyargs + a.args]
        args = list(args)
        if self_sv is not None:
            args = [self_sv] + args
        if len(args) > len(params) and a.vararg is None:
            raise OutOfSubset(f'too many positional arguments for {getattr(fnode, "name", "<lambda>")}')
        for p, v in zip(params, args):
            env[p] = v
        if a.vararg is not None:
            env[a.vararg.arg] = VTuple(tuple(args[len(params):]))
        kwargs = dict(kwargs)
        for p in params[len(args):] + [k.arg for k in a.kwonlyargs]:
            if p in kwargs:
                env[p] = kwargs.pop(p)
        if a.kwarg is not None:
            m = VMapB(self.th.empty_set, self.th.dflt_map)
            for k, v in kwargs.items():
                kt = self.th.strc(k)
                m = VMapB(z3.Store(m.has, kt, True), z3.Store(m.get, kt, self.toVal(v, st)))
            env[a.kwarg.arg] = m
            kwargs = {}
        if kwargs:
            raise OutOfSubset(f'unexpected keyword arguments {sorted(kwargs)}')
        # defaults
        pos_defaults = dict(zip(params[len(params) - len(a.defaults):], a.defaults))
        kw_defaults = {k.arg: d for k, d in zip(a.kwonlyargs, a.kw_defaults) if d is not None}
        for p in params + [k.arg for k in a.kwonlyargs]:
            if p not in env:
                d = pos_defaults.get(p, kw_defaults.get(p))
                if d is None:
                    raise OutOfSubset(f'missing argument {p}')
                old_mod, old_spec = self.cur_module, self.spec_mode
                self.cur_module = module or self.cur_module
                try:
                    self.spec_mode = True
                    r, _ = self.ev1(d, State({}, st.pc))
                finally:
                    self.cur_module, self.spec_mode = old_mod, old_spec
                env[p] = r
        return env

    def call_func(self, f: VFunc, args, kwargs, st, node):
        key = f'{f.module}:{f.qual}'
        # spec helper functions (sidecar) are always inlined, in spec mode
        if f.module == '$spec':
            return self.inline_call(f, args, kwargs, st, node, spec=True)
        is_cm = self.is_classmethod(f.node)
        self_sv = f.self_sv
        if isinstance(self_sv, VClass) and not is_cm and not self.is_staticmethod(f.node):
            self_sv = None          # Class.method(obj, ...) : explicit self in args
        if self.is_staticmethod(f.node):
            self_sv = None
        con = self.contracts.get(key)
        if con is not None and not self.spec_mode:
            # (also for a recursive call of the function under verification: partial correctness by its own contract)
            return self.apply_contract(con, f, self_sv, args, kwargs, st, node)
        if con is not None and self.spec_mode:
            return self.apply_contract(con, f, self_sv, args, kwargs, st, node)
        return self.inline_call(f, args, kwargs, st, node, self_sv=self_sv)

    def is_classmethod(self, fnode):
        return any(isinstance(d, ast.Name) and d.id == 'classmethod' for d in getattr(fnode, 'decorator_list', []))

    def is_staticmethod(self, fnode):
        return any(isinstance(d, ast.Name) and d.id == 'staticmethod' for d in getattr(fnode, 'decorator_list', []))

    def inline_call(self, f: VFunc, args, kwargs, st, node, spec=False, self_sv=None):
        if self.depth > 12:
            raise OutOfSubset('inline depth exceeded (recursion?)', node)
        if f.frame is not None and st.env.get('$frame') == f.frame:
            env = dict(st.env)          # closure called inside its defining activation: sees the live variables
        else:
            env = dict(f.env) if f.env else {}
            self.frame_ctr += 1
            env['$frame'] = self.frame_ctr
        env.update(self.bind_params(f.node, args, kwargs, st, self_sv=self_sv, module=f.module))
        for k2, v2 in st.env.items():
            if k2.startswith('$') and k2 != '$frame' and k2 not in env:
                env[k2] = v2        # ghost state (attribute stores, call log) is global
        saved = (self.cur_module, self.cur_class, self.spec_mode, st.env)
        self.cur_module = f.module
        if f.cls is not None:
            self.cur_class = f.cls
        if spec:
            self.spec_mode = True
        self.depth += 1
        try:
            st2 = State(env, st.pc, st.notes)
            if isinstance(f.node, ast.Lambda):
                res = self.ev(f.node.body, st2)
                out = [(r, s) for r, s in res]
            else:
                out = []
                for kind, v, s in self.exec_block(f.node.body, st2):
                    if kind == 'return':
                        out.append((v, s))
                    elif kind == 'fall':
                        out.append((self.none(), s))
                    elif kind == 'raise':
                        out.append((Raised(v), s))
                    else:
                        raise OutOfSubset(f'{kind} escaped function', node)
        finally:
            self.depth -= 1
            self.cur_module, self.cur_class, self.spec_mode = saved[0], saved[1], saved[2]
        # restore caller environment on every resulting state
        res = []
        for r, s in out:
            env_back = dict(saved[3]) if len(out) > 1 else saved[3]
            for k2, v2 in s.env.items():
                # ghost state written by the callee (attribute stores of objects, grown sets, call / exit logs) is global
                if k2.startswith(('$attrs:', '$sets:', '$calls', '$cm_exits')):
                    env_back[k2] = v2
            res.append((r, State(env_back, s.pc, s.notes)))
        return res

    def apply_contract(self, con, f: VFunc, self_sv, args, kwargs, st, node, vararg=None):
        """Modular call: the callee is represented by its sidecar contract only."""
        if not hasattr(self, '_shape_over') or self._shape_over is None:
            self._shape_over = []
        self._shape_over.append(con.shapes or {})
        try:
            return self._apply_contract(con, f, self_sv, args, kwargs, st, node, vararg)
        finally:
            self._shape_over.pop()

    def _apply_contract(self, con, f: VFunc, self_sv, args, kwargs, st, node, vararg=None):
        th = self.th
        base_sig = self.sidecar.signatures.get(con.key)
        if base_sig is not None and not self.spec_mode and f.node.args.kwarg is None:
            extra = [k_ for k_ in kwargs if k_ not in base_sig]
            if extra:
                # the call passes a parameter the callee's contract was not written for
                st.add(z3.Bool(f'needs_contract!{con.key} (called with new parameter {", ".join(extra)})'))
        env = self.bind_params(f.node, args, kwargs, st, self_sv=self_sv, module=f.module)
        if vararg is not None:
            env[f.node.args.vararg.arg] = vararg
        pnames = [p.arg for p in f.node.args.posonlyargs + f.node.args.args + f.node.args.kwonlyargs]
        if f.node.args.vararg is not None:
            pnames.append(f.node.args.vararg.arg)
        if f.node.args.kwarg is not None:
            pnames.append(f.node.args.kwarg.arg)
        argv = [self.toVal(env[p], st) for p in pnames] if not con.result_opaque else []
        name = san_key(con.key)
        if con.result_opaque:
            argv = []
            res_t = th.fresh('ret_' + name)
            if con.result_kind == 'str':
                st.add(th.isc('str')(res_t))
        else:
            res_t = th.fn('ret_' + name, *([th.Val] * len(argv)), th.Val)(*argv) if argv else th.const('ret0:' + name)
        result = VVal(res_t, fresh=con.result_fresh, kind=con.result_kind)
        penv = {p: self.respec(env[p], st) for p in pnames}
        if f.env:
            # a closure under contract: its clauses may name its free variables (bound in the defining activation)
            for k_, v_ in f.env.items():
                if k_ not in penv and not k_.startswith('$') and v_ is not None:
                    penv[k_] = v_
        origin = f'call:{con.key}'
        if not self.spec_mode:
            for (lam, props, label) in con.requires:
                g = self.eval_clause(lam, penv, st)
                self.emit(Obligation(self.cur_func_key, 'pre', f'{self.next_label()}:{con.key}', self.cur_props,
                                     list(st.pc), g, origin=f'precondition of {con.key} at {self.src(node)[:60]}', path_kind='call'))
        outs = []
        ok_cond = None
        if con.returns_iff is not None:
            ok_cond = self.eval_clause(con.returns_iff[0], penv, st)
        elif con.total or con.no_raise is not None or self.spec_mode:
            ok_cond = z3.BoolVal(True)
        else:
            ok_cond = th.fn('rets_' + name, *([th.Val] * len(argv)), th.B)(*argv) if argv else z3.Bool('rets0_' + name)
        s_ok = st.fork() if not self.spec_mode else st
        if not z3.is_true(ok_cond):
            s_ok.add(ok_cond)
        renv = dict(penv)
        renv['result'] = result
        for (lam, props, label) in con.ensures:
            if any(isinstance(n, ast.Name) and n.id in ('exited', 'did_call', 'called', 'made') for n in ast.walk(lam.body)):
                continue        # clauses about the callee's own ghost logs say nothing in the caller's state
            try:
                s_ok.add(self.eval_clause(lam, renv, s_ok))
            except ClauseNotApplicable:
                continue
        if not self.spec_mode and not con.result_opaque:
            # ghost call log: this call (identified by its result term, i.e. callee + arguments) was made on this path
            log_ = s_ok.env.get('$calls')
            s_ok.env['$calls'] = VTuple((log_.items if isinstance(log_, VTuple) else ()) + (VVal(res_t),))
        outs.append((result, s_ok))
        if not z3.is_true(ok_cond) and not self.spec_mode:
            s_ex = st.fork().add(z3.Not(ok_cond))
            ec = th.fresh('exc_cls', th.Exc)
            ev = th.fresh('exc_val')
            exc = VExc(ec, ev, origin)
            if con.raises is not None:
                xenv = dict(penv)
                xenv['exc'] = exc
                s_ex.add(self.eval_clause(con.raises[0], xenv, s_ex))
            outs.append((Raised(exc), s_ex))
        return outs

    def respec(self, sv, st):
        return sv

    # ------------------------------------------------------------------------------------
    def eval_clause(self, lam: ast.Lambda, env: Dict[str, SV], st: State):
        """Evaluate a sidecar clause (a lambda) in spec mode; returns z3 Bool. Facts go to st."""
        names = [p.arg for p in lam.args.args]
        e = {}
        for n in names:
            if n not in env:
                if n.startswith('final_'):
                    raise ClauseNotApplicable(n)
                raise OutOfSubset(f'contract clause refers to unknown name {n}')
            e[n] = env[n]
        for k2, v2 in env.items():
            if k2.startswith('$'):
                e[k2] = v2
        for k2, v2 in st.env.items():
            if k2.startswith('$') and k2 not in e:
                e[k2] = v2
        saved = (self.cur_module, self.spec_mode, self.cur_class)
        self.cur_module, self.spec_mode = '$spec', True
        try:
            n0 = len(st.pc)
            s = State(e, list(st.pc), st.notes)
            r, s2 = self.ev1(lam.body, s)
            res = self.truth(r, s2)
            for f in s2.pc[n0:]:
                st.pc.append(f)
            return res
        finally:
            self.cur_module, self.spec_mode, self.cur_class = saved

    # ------------------------------------------------------------------------------------
    def spec_quant(self, which, node, st):
        th = self.th
        if which in ('forall', 'exists'):
            rng, lam = node.args
            if not (isinstance(rng, ast.Call) and isinstance(rng.func, ast.Name) and rng.func.id == 'range'):
                raise OutOfSubset('forall needs range(...)', node)
            bounds = [self.ev1(a, st)[0] for a in rng.args]
            lo, hi = (z3.IntVal(0), self.toInt(bounds[0], st)) if len(bounds) == 1 else (self.toInt(bounds[0], st), self.toInt(bounds[1], st))
            j = th.fresh(lam.args.args[0].arg, th.I)
            env = dict(st.env)
            env[lam.args.args[0].arg] = VInt(j)
            s = State(env, st.pc, st.notes)
            body_state = State(env, [], [])
            r, s2 = self.ev1(lam.body, body_state)
            body = self.truth(r, s2)
            rngc = z3.And(j >= lo, j < hi)
            # definitional facts about terms built from the bound variable hold for every j: they are
            # asserted once, outside, so the quantified formula means the same in hypothesis and goal position
            if s2.pc:
                st.add(z3.ForAll([j], z3.And(s2.pc)))
            if which == 'forall':
                q = z3.ForAll([j], z3.Implies(rngc, body))
            else:
                q = z3.Exists([j], z3.And(rngc, body))
            return [(VBool(q), st)]
        lam = node.args[0]
        ks = [th.fresh(a.arg, th.Val) for a in lam.args.args]
        env = dict(st.env)
        for a, k in zip(lam.args.args, ks):
            env[a.arg] = VVal(k)
        body_state = State(env, [], [])
        r, s2 = self.ev1(lam.body, body_state)
        body = self.truth(r, s2)
        if s2.pc:
            st.add(z3.ForAll(ks, z3.And(s2.pc)))
        if which == 'forall_val':
            q = z3.ForAll(ks, body)
        else:
            q = z3.Exists(ks, body)
        return [(VBool(q), st)]

    def spec_where(self, which, node, st):
        """nth_where(n, lambda i: cond, j) / count_where(n, lambda i: cond): canonical enumeration of kept indices."""
        nsv, _ = self.ev1(node.args[0], st)
        n = self.toInt(nsv, st)
        lam = node.args[1]

        def keep_at(i, s):
            env = dict(st.env)
            env[lam.args.args[0].arg] = VInt(i)
            r, s2 = self.ev1(lam.body, State(env, s.pc, []))
            return self.truth(r, s2)
        cnt, pos, rank = self.kept_positions(keep_at, n, st)
        if which == 'count_where':
            return [(VInt(cnt), st)]
        jsv, _ = self.ev1(node.args[2], st)
        return [(VInt(pos(self.toInt(jsv, st))), st)]

    def spec_gen_of(self, node, st):
        """gen_of(n, lambda i: elem): the abstract one-shot iterable yielding elem(0..n-1) (canonical form)."""
        th = self.th
        nsv, _ = self.ev1(node.args[0], st)
        n = self.toInt(nsv, st)
        lam = node.args[1]
        i = th.fresh(lam.args.args[0].arg, th.I)
        env = dict(st.env)
        env[lam.args.args[0].arg] = VInt(i)
        r, s2 = self.ev1(lam.body, State(env, [], []))
        rv = self.toVal(r, s2)
        if s2.pc:
            st.add(z3.ForAll([i], z3.And(s2.pc)))
        arr = z3.Lambda([i], z3.If(z3.And(i >= 0, i < n), rv, th.dflt))
        return [(VVal(th.mk_gen(arr, n), kind='gen'), st)]

    def spec_lazy(self, which, node, st):
        vals = []
        cur = st
        for a in node.args:
            r, cur = self.ev1(a, cur)
            vals.append(r)
        if which == 'implies':
            return [(VBool(z3.Implies(self.truth(vals[0], cur), self.truth(vals[1], cur))), cur)]
        c = self.truth(vals[0], cur)
        return [(self.ite_sv(c, vals[1], vals[2], cur), cur)]

    # ------------------------------------------------------------------------------------
    def ev_GeneratorExp(self, node, st):
        return self.comprehension([node.elt], node.generators, st, node)

    def ev_ListComp(self, node, st):
        return self.bind(self.comprehension([node.elt], node.generators, st, node),
                         lambda g, s: self.materialize(g, 'list', s, node))

    def ev_SetComp(self, node, st):
        return self.bind(self.comprehension([node.elt], node.generators, st, node),
                         lambda g, s: self.materialize(g, 'set', s, node))

    def ev_DictComp(self, node, st):
        return self.bind(self.comprehension([node.key, node.value], node.generators, st, node),
                         lambda g, s: self.materialize(g, 'dict', s, node))

    def comprehension(self, elts, generators, st, node):
        """L3 route: evaluate the element once on a generic index and summarise."""
        if len(generators) != 1:
            raise OutOfSubset('nested comprehension clauses', node)
        gen = generators[0]

        def k(src_sv, s):
            it = self.itersrc(src_sv, s, gen.iter)
            th = self.th
            if it.static is not None:
                # statically known elements: exact unrolling
                return self.static_comprehension(elts, gen, it.static, s, node)
            i = th.fresh('i', th.I)
            off = len(s.pc)
            base = State(dict(s.env), list(s.pc), [])
            base.add(i >= 0, i < it.n)
            elem = it.at(i, base)
            self.assign_target(gen.target, elem, base, node)
            keep = None
            if it.keep is not None:
                keep = it.keep(i, base)
            nfacts = len(base.pc)
            # comprehension-if conditions
            states = [(None, base)]
            keep_terms = [] if keep is None else [keep]
            cur_states = [base]
            for cond in gen.ifs:
                nxt = []
                for cs in cur_states:
                    for r, s2 in self.ev_bool(cond, cs):
                        if isinstance(r, Raised):
                            raise OutOfSubset('raising comprehension condition', node)
                        nxt.append((r, s2))
                if len(nxt) != 1:
                    raise OutOfSubset('forking comprehension condition', node)
                keep_terms.append(self.truth(nxt[0][0], nxt[0][1]))
                cur_states = [nxt[0][1]]
            body_state = cur_states[0]
            keepf = z3.And(keep_terms) if keep_terms else None
            ok_alts, exc_alts = [], []
            results = self.evs(elts, body_state)
            gen_facts = list(body_state.pc[off + 2:nfacts])
            for r, s2 in results:
                cond = z3.And(s2.pc[off + 2:]) if len(s2.pc) > off + 2 else z3.BoolVal(True)
                if isinstance(r, Raised):
                    exc_alts.append((cond, (r.exc.cls, r.exc.val, r.exc.origin)))
                else:
                    vals = [self.toVal(x, s2) for x in r]
                    cond = z3.And(s2.pc[off + 2:]) if len(s2.pc) > off + 2 else z3.BoolVal(True)
                    ok_alts.append((cond, vals, r))
            if not ok_alts:
                raise OutOfSubset('comprehension element never evaluates', node)
            ok = z3.Or([c for c, _, _ in ok_alts]) if len(ok_alts) > 1 else ok_alts[0][0]
            vals = ok_alts[-1][1]
            for c, v, _ in reversed(ok_alts[:-1]):
                vals = [z3.If(c, a, b) for a, b in zip(v, vals)]
            elt_sv = (ok_alts[0][2][0] if len(ok_alts[0][2]) == 1 else VTuple(tuple(ok_alts[0][2]))) if len(ok_alts) == 1 else None
            g = VGen(n=it.n, idx=i, ok=ok, val=vals[0] if len(vals) == 1 else tuple(vals), excs=tuple(exc_alts), keep=keepf,
                     facts=tuple(gen_facts))
            object.__setattr__(g, '_elt_sv', elt_sv)
            s.add(it.n >= 0)
            return [(g, s)]
        return self.bind(self.ev(gen.iter, st), k)

    def static_comprehension(self, elts, gen, items, st, node):
        results = [([], st)]
        for item in items:
            nxt = []
            for acc, s in results:
                if isinstance(acc, Raised):
                    nxt.append((acc, s))
                    continue
                s = s.fork()
                self.assign_target(gen.target, item, s, node)
                keep = z3.BoolVal(True)
                ok = True
                for cond in gen.ifs:
                    r, s = self.ev1(cond, s)
                    keep = z3.And(keep, self.truth(r, s))
                keep = z3.simplify(keep)
                if z3.is_false(keep):
                    nxt.append((acc, s))
                    continue
                if not z3.is_true(keep):
                    raise OutOfSubset('symbolic filter over static sequence', node)
                for r, s2 in self.evs(elts, s):
                    if isinstance(r, Raised):
                        nxt.append((r, s2))
                    else:
                        nxt.append((acc + [r[0] if len(r) == 1 else VTuple(tuple(r))], s2))
            results = nxt
        out = []
        for acc, s in results:
            if isinstance(acc, Raised):
                out.append((acc, s))
            else:
                out.append((VTuple(tuple(acc), True), s))
        return out

    def all_hashable(self, term) -> bool:
        return term in self.hashable_terms or (z3.is_app(term) and term.decl().name() == 'm_key')

    def gen_at(self, g: VGen, term, k):
        return z3.substitute(term, (g.idx, k))

    def consume(self, g: SV, st: State):
        """Run a generator summary to exhaustion: outcomes are 'all elements ok' or 'first failing element raises'."""
        th = self.th
        if not isinstance(g, VGen):
            return [(g, st)]
        j = th.fresh('j', th.I)
        keep_j = self.gen_at(g, g.keep, j) if g.keep is not None else z3.BoolVal(True)
        rng = z3.And(j >= 0, j < g.n)
        facts = [z3.ForAll([j], z3.Implies(rng, self.gen_at(g, f, j))) for f in g.facts]
        all_ok = z3.ForAll([j], z3.Implies(z3.And(rng, keep_j), self.gen_at(g, g.ok, j)))
        outs = []
        if self.spec_mode or not g.excs:
            st.add(*facts)
            if not g.excs and not self.spec_mode:
                st.add(all_ok)
            return [(g, st)]
        s_ok = st.fork().add(*facts).add(all_ok)
        outs.append((g, s_ok))
        for cond, (ecls, eval_, origin) in g.excs:
            k = th.fresh('k', th.I)
            s_ex = st.fork().add(*facts)
            keep_k = self.gen_at(g, g.keep, k) if g.keep is not None else z3.BoolVal(True)
            s_ex.add(k >= 0, k < g.n, keep_k, self.gen_at(g, cond, k))
            s_ex.add(z3.ForAll([j], z3.Implies(z3.And(j >= 0, j < k, keep_j), self.gen_at(g, g.ok, j))))
            outs.append((Raised(VExc(self.gen_at(g, ecls, k) if not _is_const(ecls) else ecls, self.gen_at(g, eval_, k), origin)), s_ex))
        return outs

    def materialize(self, g: SV, target: str, st: State, node=None):
        """list(gen) / tuple(gen) / set(gen) / dict comprehension."""
        th = self.th
        if isinstance(g, VTuple):     # static unrolled result
            if target in ('list', 'tuple'):
                return [(VTuple(g.items, target == 'list'), st)]
            if target == 'set':
                has = th.empty_set
                for it in g.items:
                    has = z3.Store(has, self.toVal(it, st), True)
                return [(VSetB(has), st)]
            if target == 'dict':
                m = VMapB(th.empty_set, th.dflt_map)
                for it in g.items:
                    kt = self.toVal(it.items[0], st)
                    m = VMapB(z3.Store(m.has, kt, True), z3.Store(m.get, kt, self.toVal(it.items[1], st)))
                return [(m, st)]
        if not isinstance(g, VGen):
            raise OutOfSubset('materialize non-generator', node)

        def k(gg, s):
            i = gg.idx
            rng = z3.And(i >= 0, i < gg.n)
            if target in ('list', 'tuple'):
                if gg.keep is not None:
                    # filtered: element j of the result is the j-th KEPT source element (canonical enumeration)
                    cnt, pos, rank = self.kept_positions(lambda t, s_: self.gen_at(gg, gg.keep, t), gg.n, s)
                    # canonical name: the same filter over the same element expression is the same value, so that a
                    # specification can denote it (kept_seq(...)) without an existential
                    import hashlib
                    probe = z3.Int('$i')
                    sig_ = str(z3.simplify(self.gen_at(gg, gg.keep, probe))) + '|' + str(z3.simplify(self.gen_at(gg, gg.val, probe))) + '|' + str(z3.simplify(gg.n))
                    r = z3.Const('kept_' + target + '_' + hashlib.sha1(sig_.encode()).hexdigest()[:12], th.Val)
                    j = th.fresh('j', th.I)
                    s.add(th.vlen(r) == cnt, r != th.NoneV, th.isc(target)(r), th.truthy(r) == (cnt > 0),
                          z3.ForAll([j], z3.Implies(z3.And(j >= 0, j < cnt),
                                                    z3.Select(th.sq_arr(r), j) == self.gen_at(gg, gg.val, pos(j)))))
                    return [(VVal(r, fresh=True, kind='seq'), s)]
                # (no z3 lambda here: a fresh array constrained pointwise keeps the query in the decidable array fragment)
                t = th.fresh('built_' + target)
                s.add(th.vlen(t) == gg.n, th.isc(target)(t), t != th.NoneV, th.truthy(t) == (gg.n > 0),
                      z3.ForAll([i], z3.Implies(rng, z3.Select(th.sq_arr(t), i) == gg.val)))
                return [(VVal(t, fresh=True, kind='seq'), s)]
            kk = z3.Const('k!m', th.Val)
            keep = gg.keep if gg.keep is not None else z3.BoolVal(True)
            keyterm = gg.val if target == 'set' else gg.val[0]
            if not self.spec_mode and not self.all_hashable(keyterm):
                # hash-based containers raise TypeError on the first unhashable key
                kx = th.fresh('kx', th.I)
                s_bad = s.fork().add(kx >= 0, kx < gg.n, self.gen_at(gg, keep, kx), z3.Not(th.hashable(self.gen_at(gg, keyterm, kx))))
                s.add(z3.ForAll([i], z3.Implies(z3.And(rng, keep), th.hashable(keyterm))))
                bad = [self.raise_('TypeError', s_bad, f'{target}-build:{self.src(node)[:40]}:unhashable')]
            else:
                bad = []
            if target == 'set':
                has = z3.Lambda([kk], z3.Exists([i], z3.And(rng, keep, gg.val == kk)))
                return [(VSetB(has), s)] + bad
            if target == 'dict':
                kv, vv = gg.val
                has = z3.Lambda([kk], z3.Exists([i], z3.And(rng, keep, kv == kk)))
                # value of the LAST index producing the key; we expose it through a witness function
                wit = th.fn('dwit_' + str(i), th.Val, th.I)
                get = z3.Lambda([kk], self.gen_at(gg, vv, wit(kk)))
                j = th.fresh('j', th.I)
                kq = th.fresh('kq')
                s.add(z3.ForAll([kq], z3.Implies(z3.Select(has, kq),
                                                 z3.And(wit(kq) >= 0, wit(kq) < gg.n, self.gen_at(gg, keep, wit(kq)),
                                                        self.gen_at(gg, kv, wit(kq)) == kq))))
                s.add(z3.ForAll([kq, j], z3.Implies(z3.And(j > wit(kq), j < gg.n, self.gen_at(gg, keep, j)),
                                                    self.gen_at(gg, kv, j) != kq)))
                return [(VMapB(has, get), s)] + bad
            raise OutOfSubset('materialize ' + target, node)
        return self.bind(self.consume(g, st), k)


def _is_const(t):
    return z3.is_app(t) and t.num_args() == 0


def san_key(k: str) -> str:
    import re
    return re.sub(r'[^A-Za-z0-9_]', '_', k)
