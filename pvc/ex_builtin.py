"""Assumed contracts of builtins / stdlib (DESIGN.md 2.4) and iteration sources."""
from __future__ import annotations
import ast
from typing import Any, Dict, List
import z3

from .sv import *
from .state import State, Obligation


class _MapForks(Exception):
    pass


class Builtins:
    # ---------------------------------------------------------------- iteration sources
    def itersrc(self, sv: SV, st: State, node=None) -> VIter:
        th = self.th
        if isinstance(sv, VIter):
            return sv
        if isinstance(sv, VTuple):
            return VIter(z3.IntVal(len(sv.items)), None, static=tuple(sv.items))
        if isinstance(sv, VListB):
            return VIter(sv.n, lambda i, s: VVal(z3.Select(sv.arr, i)))
        if isinstance(sv, VGen):
            g = sv
            if g.excs:
                raise OutOfSubset('iteration over a raising generator', node)
            return VIter(g.n, lambda i, s: VVal(self.gen_at(g, g.val, i)),
                         keep=(lambda i, s: self.gen_at(g, g.keep, i)) if g.keep is not None else None)
        if isinstance(sv, VVal) and sv.cls is not None and self.idx.find_method(sv.cls, '__iter__') is not None:
            fi = self.idx.find_method(sv.cls, '__iter__')
            f = VFunc(fi.node, {}, fi.module, fi.qualname, self_sv=sv, cls=sv.cls)
            outs = self.inline_call(f, [], {}, st, node, self_sv=sv)
            oks = [(r, s2) for r, s2 in outs if not isinstance(r, Raised)]
            if len(outs) != 1 or len(oks) != 1:
                raise OutOfSubset('__iter__ forks or raises', node)
            st.pc[:] = oks[0][1].pc
            return self.itersrc(oks[0][0], st, None)
        if isinstance(sv, VVal):
            kind = sv.kind
            src = self.src(node) if node is not None else ''
            ek = self.shape_of(src + '[]')
            if kind in ('seq', 'str'):
                st.add(th.vlen(sv.term) >= 0)
                return VIter(th.vlen(sv.term), lambda i, s: self.mkval(z3.Select(th.sq_arr(sv.term), i), ek))
            if kind == 'map':
                return self.map_iter(sv, 'keys', st)
            if kind == 'set':
                return self.set_iter(sv.term, th.s_hasA(sv.term), st)
        if isinstance(sv, VSetB):
            t = self.toVal(sv, st)
            return self.set_iter(t, sv.has, st)
        if isinstance(sv, VMapB):
            t = self.toVal(sv, st)
            return self.map_iter(VVal(t, kind='map'), 'keys', st)
        raise OutOfSubset(f'iteration over {type(sv).__name__} (kind {getattr(sv, "kind", None)}): add a shape hint', node)

    def map_iter(self, m: VVal, what: str, st: State) -> VIter:
        th = self.th
        t = m.term
        if z3.is_app(t) and (t.decl().kind() != z3.Z3_OP_UNINTERPRETED or t.num_args() > 0 and any(not z3.is_const(a) or a.sort() != th.Val for a in t.children())):
            # interpreted head (ite, ...) cannot occur in a trigger: name the value
            key0 = 'alias:' + str(t.get_id())
            al = self.alias_cache.get(key0)
            if al is None:
                al = th.fresh('mapv')
                self.alias_cache[key0] = al
            st.add(al == t)
            t = al
        i = z3.Int('i!mk')
        k = z3.Const('k!mk', th.Val)
        key = f'mapiter:{t}'
        # standing facts tying key order and membership together (instantiated by e-matching)
        facts = [
            th.vlen(t) >= 0,
            z3.ForAll([i], z3.Implies(z3.And(i >= 0, i < th.vlen(t)),
                                      z3.And(z3.Select(th.m_hasA(t), th.m_key(t, i)), th.m_idx(t, th.m_key(t, i)) == i,
                                             th.hashable(th.m_key(t, i)))),
                      patterns=[th.m_key(t, i)]),
            z3.ForAll([k], z3.Implies(z3.Select(th.m_hasA(t), k),
                                      z3.And(th.m_idx(t, k) >= 0, th.m_idx(t, k) < th.vlen(t), th.m_key(t, th.m_idx(t, k)) == k)),
                      patterns=[th.m_idx(t, k), z3.Select(th.m_hasA(t), k)]),
        ]
        if key not in self.iter_facts_added:
            self.iter_facts_added.add(key)
            self.standing.extend(facts)
        src = f'{what}'
        ek = None

        def at(i, s):
            kt = th.m_key(t, i)
            kv = VVal(kt)
            self.hashable_terms.add(kt)
            if what == 'keys':
                return kv
            vv = VVal(z3.Select(th.m_getA(t), kt), kind=self.map_value_kind.get(str(t)))
            return vv if what == 'values' else VTuple((kv, vv))
        res = VIter(th.vlen(t), at)
        if what == 'keys':
            object.__setattr__(res, '_map_keys_of', t)
        return res

    def set_iter(self, t, has, st: State) -> VIter:
        th = self.th
        i = z3.Int('i!sk')
        k = z3.Const('k!sk', th.Val)
        elem = th.fn('s_elem', th.Val, th.I, th.Val)
        pos = th.fn('s_pos', th.Val, th.Val, th.I)
        facts = [th.vlen(t) >= 0,
                 z3.ForAll([i], z3.Implies(z3.And(i >= 0, i < th.vlen(t)),
                                           z3.And(z3.Select(has, elem(t, i)), pos(t, elem(t, i)) == i)), patterns=[elem(t, i)]),
                 z3.ForAll([k], z3.Implies(z3.Select(has, k),
                                           z3.And(pos(t, k) >= 0, pos(t, k) < th.vlen(t), elem(t, pos(t, k)) == k)),
                           patterns=[pos(t, k)])]
        st.add(*facts)
        return VIter(th.vlen(t), lambda i, s: VVal(elem(t, i)))

    # ---------------------------------------------------------------- builtins
    def call_builtin(self, f: VBuiltin, args, kwargs, st, node):
        name = f.name
        if name.startswith('iconv.'):
            return self.call_iconv(name[6:], f.recv, args, kwargs, st, node)
        if name.startswith('valmeth.'):
            return self.call_valmeth(name[8:], f.recv, args, kwargs, st, node)
        if name.startswith('builder.'):
            return self.call_builder(name[8:], f.recv, args, kwargs, st, node)
        if name.startswith('spec.'):
            return self.call_spec(name[5:], args, kwargs, st, node)
        if name.startswith('supermeth.'):
            meth = name[len('supermeth.'):]
            fi = self.idx.find_method(self.cur_class, meth, after=self.cur_class) if self.cur_class else None
            recv = st.env.get('self')
            if fi is not None and isinstance(recv, VVal) and not self.is_abstract(fi):
                # the method as defined by the nearest repository ancestor (its contract if it has one, else its body)
                return self.call_func(VFunc(fi.node, {}, fi.module, fi.qualname, self_sv=recv, cls=fi.cls), args, kwargs, st, node)
            if meth == '__setattr__' and isinstance(recv, VVal) and len(args) == 2:
                # object.__setattr__ through super(): the attribute is stored
                return self.do_setattr(recv, args[0], args[1], st, node)
            # super().__init__() / __init_subclass__(...) of classes outside the repository: no observable effect here
            return [(self.none(), st)]
        h = getattr(self, 'bi_' + name.replace('.', '_'), None)
        if h is None:
            if f.recv is not None and isinstance(f.recv, VClass):
                return self.class_attr_call(f.recv, name.split('.', 1)[1], args, kwargs, st, node)
            if name in self.KNOWN_FUNCS or name in self.EXTERNAL_FUNCS:
                return self.external_call(name, args, kwargs, st, node)
            raise OutOfSubset(f'builtin {name}', node)
        return h(args, kwargs, st, node)

    EXTERNAL_FUNCS = {'open', 'json.load', 'json.dump', 'yaml.load', 'yaml.load_all', 'yaml.dump', 'contextlib.nullcontext'}

    def external_term(self, name, args, kwargs, st):
        th = self.th
        names = sorted(kwargs)
        a = [self.toVal(x, st) for x in args] + [self.toVal(kwargs[k], st) for k in names]
        suffix = ('_kw_' + '_'.join(names)) if names else ''
        fname = 'ext_' + name.replace('.', '_') + f'_{len(args)}' + suffix
        return (th.fn(fname, *([th.Val] * len(a)), th.Val)(*a) if a else th.const('ext0:' + name)), fname, a

    def external_call(self, name, args, kwargs, st, node):
        """A dependency outside the repository (json, yaml, open): deterministic opaque result, may raise anything;
        the call is recorded in the ghost call log so that a contract can say WHAT was called with WHICH arguments."""
        th = self.th
        t, fname, a = self.external_term(name, args, kwargs, st)
        res = self.mkval(t, self.shape_of('ext:' + name), fresh=True)
        log = st.env.get('$calls')
        st.env['$calls'] = VTuple((log.items if isinstance(log, VTuple) else ()) + (VVal(t),))
        if self.spec_mode or name == 'contextlib.nullcontext':
            return [(res, st)]
        cr = th.fn('raises_' + fname, *([th.Val] * len(a)), th.B)(*a) if a else z3.Bool('raises0_' + name)
        s_ok = st.fork().add(z3.Not(cr))
        s_ex = st.fork().add(cr)
        return [(res, s_ok), (Raised(VExc(th.fresh('exc_cls', th.Exc), th.fresh('excv'), f'external:{name}')), s_ex)]

    def bi_open(self, args, kwargs, st, node):
        return self.external_call('open', args, kwargs, st, node)

    def bi_len(self, args, kwargs, st, node):
        th = self.th
        v = args[0]
        if isinstance(v, VTuple):
            return [(VInt(z3.IntVal(len(v.items))), st)]
        if isinstance(v, VListB):
            return [(VInt(v.n), st)]
        if isinstance(v, (VMapB, VSetB)):
            st.add(*self.card_facts(v.has))
            return [(VInt(th.card(v.has)), st)]
        if isinstance(v, VVal):
            st.add(th.vlen(v.term) >= 0)
            res = VInt(th.vlen(v.term))
            if self.spec_mode or v.kind in ('map', 'seq', 'set', 'str'):
                return [(res, st)]
            ha = th.has_attr('__len__')(v.term)
            return self.outcomes(st, [(ha, res), (z3.Not(ha), ('raise', 'TypeError', f'len:{self.src(node)}'))])
        raise OutOfSubset('len', node)

    def cls_pred(self, v_term, c: SV, st, node):
        th = self.th
        if isinstance(c, VClass):
            if c.name == 'object':
                return z3.BoolVal(True)
            return th.isc(c.name)(v_term)
        if isinstance(c, VTuple):
            return z3.Or([self.cls_pred(v_term, x, st, node) for x in c.items]) if c.items else z3.BoolVal(False)
        if isinstance(c, VVal):
            return th.isinst_dyn(v_term, c.term)
        if isinstance(c, (VModule, VBuiltin)):
            # a class the lattice does not know (types.GenericAlias ...): an opaque class value
            return th.isinst_dyn(v_term, self.toVal(c, st))
        raise OutOfSubset('isinstance class argument', node)

    def bi_isinstance(self, args, kwargs, st, node):
        v, c = args
        if isinstance(v, VExc):
            if isinstance(c, VClass):
                return [(VBool(self.th.exc_catches(c.name, v.cls)), st)]
        if isinstance(v, VVal) and v.cls is not None and isinstance(c, VClass) and v.cls in self.idx.classes:
            return [(VBool(z3.BoolVal(v.cls == c.name or self.idx.is_subclass(v.cls, c.name))), st)]
        if isinstance(v, (VInt,)) and isinstance(c, VClass):
            return [(VBool(z3.BoolVal(c.name in ('int', 'object', 'Hashable'))), st)]
        if isinstance(v, VBool) and isinstance(c, VClass):
            return [(VBool(z3.BoolVal(c.name in ('int', 'bool', 'object', 'Hashable'))), st)]
        if isinstance(v, (VFunc, VBuiltin)):
            return [(VBool(z3.BoolVal(False)), st)]
        return [(VBool(self.cls_pred(self.toVal(v, st), c, st, node)), st)]

    def bi_issubclass(self, args, kwargs, st, node):
        th = self.th
        a, c = args
        sub = th.lat['sub']

        def one(cc):
            if isinstance(a, VClass) and isinstance(cc, VClass) and a.name in sub and cc.name in sub[a.name]:
                return z3.BoolVal(sub[a.name][cc.name])
            return th.issub_dyn(self.toVal(a, st), self.toVal(cc, st))
        if isinstance(c, VTuple):
            return [(VBool(z3.Or([one(x) for x in c.items])), st)]
        res = VBool(one(c))
        if self.spec_mode or isinstance(a, VClass) or (isinstance(a, VVal) and a.kind in ('typeobj', 'cls')):
            return [(res, st)]
        isty = th.isc('type')(self.toVal(a, st))
        return self.outcomes(st, [(isty, res), (z3.Not(isty), ('raise', 'TypeError', f'issubclass:{self.src(node)}'))])

    def bi_type(self, args, kwargs, st, node):
        if len(args) != 1:
            raise OutOfSubset('3-argument type()', node)
        v = args[0]
        if isinstance(v, VVal) and v.py == ('const', None):
            return [(VClass('NoneType'), st)]
        if isinstance(v, VExc):
            return [(VVal(self.th.fn('exc_type', self.th.Exc, self.th.Val)(v.cls), kind='typeobj'), st)]
        t = self.th.type_of(self.toVal(v, st))
        return [(VVal(t, kind='typeobj'), st)]

    def bi_id(self, args, kwargs, st, node):
        th = self.th
        return [(VVal(th.fn('id_of', th.Val, th.Val)(self.toVal(args[0], st)), kind='int'), st)]

    def bi_hash(self, args, kwargs, st, node):
        th = self.th
        v = self.toVal(args[0], st)
        res = VVal(th.fn('hash_of', th.Val, th.Val)(v), kind='int')
        if self.spec_mode or self.known_hashable(args[0]):
            return [(res, st)]
        return self.outcomes(st, [(th.hashable(v), res), (z3.Not(th.hashable(v)), ('raise', 'TypeError', 'hash:unhashable'))])

    def bi_repr(self, args, kwargs, st, node):
        th = self.th
        t = th.fn('repr_of', th.Val, th.Val)(self.toVal(args[0], st))
        st.add(th.isc('str')(t))
        return [(VVal(t, kind='str'), st)]

    def bi_str(self, args, kwargs, st, node):
        th = self.th
        if not args:
            return [(self.const_sv(''), st)]
        if isinstance(args[0], VVal) and args[0].kind == 'str':
            return [(args[0], st)]
        t = th.fn('str_of', th.Val, th.Val)(self.toVal(args[0], st))
        st.add(th.isc('str')(t))
        return [(VVal(t, kind='str'), st)]

    def bi_bool(self, args, kwargs, st, node):
        return [(VBool(self.truth(args[0], st)), st)]

    def bi_callable(self, args, kwargs, st, node):
        th = self.th
        return [(VBool(th.fn('is_callable', th.Val, th.B)(self.toVal(args[0], st))), st)]

    def bi_hasattr(self, args, kwargs, st, node):
        th = self.th
        o, n = args
        if isinstance(o, VBuiltin) and o.name == 'iconv.into_data' and isinstance(n, VVal) and n.py == ('const', '_original'):
            # the marker of the default Converter.into_data implementation
            return [(VBool(th.fn('default_into_data', th.Val, th.B)(o.recv.term)), st)]
        if isinstance(n, VVal) and n.py is not None:
            if isinstance(o, VClass):
                has = self.idx.find_method(o.name, n.py[1]) is not None
                return [(VBool(z3.BoolVal(has)), st)] if has else [(VBool(th.has_attr(n.py[1])(self.toVal(o, st))), st)]
            ov = self.toVal(o, st)
            base = th.has_attr(n.py[1])(ov)
            store = st.env.get(f'$attrs:{ov}')
            if isinstance(store, VMapB):      # attributes written by the function body so far exist
                base = z3.Or(z3.Select(store.has, th.strc(n.py[1])), base)
            return [(VBool(base), st)]
        return [(VBool(th.fn('hasattr_dyn', th.Val, th.Val, th.B)(self.toVal(o, st), self.toVal(n, st))), st)]

    def bi_getattr(self, args, kwargs, st, node):
        th = self.th
        o, n = args[0], args[1]
        if isinstance(n, VVal) and n.py is not None and isinstance(n.py[1], str):
            name = n.py[1]
            if len(args) == 2:
                # dunder data attributes written through object.__setattr__ in the same function
                slot = self.attr_slot(o, name, st)
                if slot is not None:
                    return [(slot, st)]
                if isinstance(o, VVal) and node is not None and len(node.args) >= 1 and not name.startswith('__pane') \
                        and (name in self.VAL_METHODS or name in self.TOTAL_ATTRS or name in self.ICONV_METHODS):
                    # getattr(x, 'name') with a literal name IS x.name (methods of values, always-present dunder attributes)
                    syn = ast.Attribute(value=node.args[0], attr=name, ctx=ast.Load())
                    ast.copy_location(syn, node)
                    return self.getattr_sv(o, name, st, syn)
                return self.getattr_sv(o, name, st, None) if not isinstance(o, VVal) else self.getattr_named(o, name, st, node)
            ov = self.toVal(o, st)
            has = th.has_attr(name)(ov)
            return [(self.mkval(z3.If(has, th.fld(name)(ov), self.toVal(args[2], st)), self.shape_of('.' + name)), st)]
        # dynamic name: the record idiom getattr(self, f.name)
        ov = self.toVal(o, st)
        nv = self.toVal(n, st)
        cur = self.dyn_attr_read(o, ov, nv, st)
        if len(args) == 3:
            has = th.fn('hasattr_dyn', th.Val, th.Val, th.B)(ov, nv)
            return [(VVal(z3.If(has, cur, self.toVal(args[2], st))), st)]
        return [(VVal(cur), st)]

    def getattr_named(self, o: VVal, name, st, node):
        th = self.th
        term = th.fld(name)(o.term)
        kind = self.shape_of('.' + name)
        out = self.mkval(term, kind)
        root_ok = node is not None and len(node.args) >= 1 and self.src(node.args[0]) in ('self', 'cls', 'self.cls')
        if self.spec_mode or root_ok or o.kind in ('rec', 'conv') or o.cls is not None:
            return [(out, st)]
        ha = th.has_attr(name)(o.term)
        return self.outcomes(st, [(ha, out), (z3.Not(ha), ('raise', 'AttributeError', f'getattr:{self.src(node)}'))])

    def dyn_attr_read(self, o_sv, ov, nv, st):
        th = self.th
        base = th.fn('dynattr', th.Val, th.Val, th.Val)(ov, nv)
        store = st.env.get(f'$attrs:{ov}')
        if isinstance(store, VMapB):
            return z3.If(z3.Select(store.has, nv), z3.Select(store.get, nv), base)
        return base

    def attr_slot(self, o, name, st):
        if isinstance(o, VVal):
            store = st.env.get(f'$attrs:{o.term}')
            if isinstance(store, VMapB):
                kt = self.th.strc(name)
                hv = z3.simplify(z3.Select(store.has, kt))
                if z3.is_true(hv):
                    return self.mkval(z3.simplify(z3.Select(store.get, kt)), self.shape_of('.' + name))
        return None

    def bi_setattr(self, args, kwargs, st, node):
        o, n, v = args
        return self.do_setattr(o, n, v, st, node)

    def do_setattr(self, o, n, v, st, node):
        th = self.th
        ov = self.toVal(o, st)
        key = f'$attrs:{ov}'
        if not self.is_mutable_root(o, st):
            self.frame_violation(st, f'setattr on {self.src(node)}', node)
        store = st.env.get(key)
        if not isinstance(store, VMapB):
            store = VMapB(th.empty_set, th.dflt_map)
        nv = self.toVal(n, st)
        st.env[key] = VMapB(z3.Store(store.has, nv, True), z3.Store(store.get, nv, self.toVal(v, st)))
        if isinstance(n, VVal) and n.py is not None and isinstance(v, VVal) and v.kind is not None:
            if not hasattr(self, 'obj_attr_kinds'):
                self.obj_attr_kinds = {}
            self.obj_attr_kinds[(str(ov), n.py[1])] = v.kind       # the kind of what was stored is the kind of what is read back
        return [(self.none(), st)]

    def is_mutable_root(self, o, st) -> bool:
        if isinstance(o, VVal) and (o.fresh or str(o.term) in self.mutable_terms):
            return True
        # state owned by a mutable receiver: self.<attr> of a method that may mutate self
        if isinstance(o, VVal) and z3.is_app(o.term) and o.term.num_args() == 1 and o.term.decl().name().startswith('fld_') \
                and str(o.term.arg(0)) in self.mutable_terms:
            return True
        return False

    def concat_list(self, cur, src, st):
        """cur ++ elements of the iteration source src, as a list builder (pointwise facts, no z3 lambda)."""
        th = self.th
        import hashlib
        i = th.fresh('i', th.I)
        s0 = State(dict(st.env), [])
        ev = self.toVal(src.at(i, s0), s0)
        probe = z3.Int('$i')
        sig_ = '|'.join(str(z3.simplify(x)) for x in (cur.arr, cur.n, z3.substitute(ev, (i, probe)), src.n))
        # canonical name: the same concatenation is the same array (a specification can rebuild it)
        A = z3.Const('cat_arr_' + hashlib.sha1(sig_.encode()).hexdigest()[:12], th.SeqA)
        st.add(src.n >= 0,
               z3.ForAll([i], z3.Implies(z3.And(i >= 0, i < cur.n), z3.Select(A, i) == z3.Select(cur.arr, i))),
               z3.ForAll([i], z3.Implies(z3.And(i >= 0, i < src.n), z3.And(*(s0.pc + [z3.Select(A, cur.n + i) == ev])))))
        return VListB(A, cur.n + src.n)

    def frame_ok(self, st, what):
        """A mutating operation whose receiver was created inside the function (ownership check passed)."""
        if self.spec_mode:
            return
        key = what
        if key in self.frame_sites:
            return
        self.frame_sites.add(key)
        self.emit(Obligation(self.cur_func_key, 'frame', f'{self.next_label()}', self.frame_props, [], z3.BoolVal(True),
                             origin=f'mutation of a function-local object only: {what}', path_kind='mutation', route='ownership'))

    def frame_violation(self, st, what, node, extra_props=()):
        self.emit(Obligation(self.cur_func_key, 'frame', f'{self.next_label()}', sorted(set(self.frame_props) | set(extra_props)),
                             list(st.pc), z3.BoolVal(False), origin=f'mutation of a caller-owned object: {what}',
                             path_kind='mutation'))

    # -- constructors of builtin containers ------------------------------------------------
    def bi_tuple(self, args, kwargs, st, node):
        return self.container_ctor('tuple', args, st, node)

    def bi_list(self, args, kwargs, st, node):
        return self.container_ctor('list', args, st, node)

    def bi_set(self, args, kwargs, st, node):
        return self.container_ctor('set', args, st, node)

    def bi_frozenset(self, args, kwargs, st, node):
        return self.container_ctor('set', args, st, node)

    def container_ctor(self, target, args, st, node):
        th = self.th
        if not args:
            if target == 'set':
                return [(VSetB(th.empty_set), st)]
            return [(VTuple((), target == 'list'), st)]
        x = args[0]
        if isinstance(x, (VGen, VTuple)) and (isinstance(x, VGen) or target != 'set' or True):
            if isinstance(x, VTuple) and target in ('list', 'tuple'):
                return [(VTuple(x.items, target == 'list'), st)]
            if isinstance(x, VTuple):
                return self.materialize(x, target, st, node)
            return self.materialize(x, target, st, node)
        if isinstance(x, VListB) and target in ('list', 'tuple'):
            return [(x, st)] if target == 'list' else [(VVal(self.toVal(x, st), fresh=True, kind='seq'), st)]
        if isinstance(x, VIter):
            if target == 'set' and getattr(x, '_map_keys_of', None) is not None:
                return [(VSetB(th.m_hasA(x._map_keys_of)), st)]
            if target in ('list', 'tuple') and x.keep is None and x.static is None:
                return [(x, st)]        # immutable snapshot of an iteration source (only iterated / reversed afterwards)
            return self.iter_to_container(x, target, st, node)
        if isinstance(x, VVal):
            if x.kind in ('seq', 'str') and target in ('list', 'tuple'):
                t = (th.mk_list if target == 'list' else th.mk_tuple)(th.sq_arr(x.term), th.vlen(x.term))
                st.add(th.vlen(t) == th.vlen(x.term), th.sq_arr(t) == th.sq_arr(x.term), th.isc(target)(t), t != th.NoneV,
                       th.vlen(t) >= 0)
                return [(VVal(t, fresh=True, kind='seq'), st)]
            if x.kind == 'map' and target == 'set':
                return [(VSetB(th.m_hasA(x.term)), st)]
            if x.kind == 'set' and target == 'set':
                return [(VSetB(th.s_hasA(x.term)), st)]
            if x.kind in ('seq', 'str') and target == 'set':
                k = z3.Const('k!cs', th.Val)
                return [(VSetB(z3.Lambda([k], th.seq_contains(x.term, k))), st)]
            if x.kind is None and target in ('list', 'tuple'):
                # opaque iterable: a NEW container whose contents are a function of the argument, or TypeError (not iterable)
                it_ok = th.fn('iterable_', th.Val, z3.BoolSort())(x.term)
                t = th.fn('contents_' + target, th.Val, th.Val)(x.term)
                st.add(z3.Implies(it_ok, z3.And(th.isc(target)(t), t != th.NoneV, th.vlen(t) >= 0, t != x.term)))
                return self.outcomes(st, [(it_ok, VVal(t, fresh=True, kind='seq')),
                                          (z3.Not(it_ok), ('raise', 'TypeError', f'{target}():not-iterable'))])
            return self.iter_to_container(self.itersrc(x, st, node.args[0] if node is not None else None), target, st, node)
        if isinstance(x, VSetB) and target == 'set':
            return [(x, st)]
        if isinstance(x, (VSetB, VMapB)):
            return self.iter_to_container(self.itersrc(x, st), target, st, node)
        raise OutOfSubset(f'{target}() of {type(x).__name__}', node)

    def iter_to_container(self, it: VIter, target, st, node):
        th = self.th
        if it.static is not None:
            return self.materialize(VTuple(tuple(it.static)), target, st, node)
        i = th.fresh('i', th.I)
        s0 = State(dict(st.env), list(st.pc))
        elem = it.at(i, s0)
        extra = s0.pc[len(st.pc):]
        keep = it.keep(i, s0) if it.keep is not None else None
        g = VGen(n=it.n, idx=i, ok=z3.BoolVal(True), val=self.toVal(elem, s0), excs=(), keep=keep, facts=tuple(extra))
        object.__setattr__(g, '_elt_sv', elem)
        return self.materialize(g, target, st, node)

    def bi_dict(self, args, kwargs, st, node):
        th = self.th
        if not args:
            m = VMapB(th.empty_set, th.dflt_map)
            for k, v in kwargs.items():
                kt = th.strc(k)
                m = VMapB(z3.Store(m.has, kt, True), z3.Store(m.get, kt, self.toVal(v, st)))
            return [(m, st)]
        x = args[0]
        if isinstance(x, VMapB):
            return [(x, st)]
        if isinstance(x, VVal) and x.kind == 'map':
            return [(VMapB(th.m_hasA(x.term), th.m_getA(x.term)), st)]
        if isinstance(x, VIter) and getattr(x, 'zip_of', None) is not None:
            pass
        raise OutOfSubset('dict() form', node)

    def bi_iter(self, args, kwargs, st, node):
        x = args[0]
        th = self.th
        if isinstance(x, (VListB,)) or (isinstance(x, VTuple) and x.is_list):
            # a one-shot iterator over a list: the same abstract value as a generator yielding its elements
            if isinstance(x, VTuple):
                arr0 = th.dflt_seq
                for kk, itv in enumerate(x.items):
                    arr0 = z3.Store(arr0, kk, self.toVal(itv, st))
                x = VListB(arr0, z3.IntVal(len(x.items)))
            i = z3.Int('i!it')
            arr = z3.Lambda([i], z3.If(z3.And(i >= 0, i < x.n), z3.Select(x.arr, i), th.dflt))
            return [(VVal(th.mk_gen(arr, x.n), fresh=True, kind='gen'), st)]
        return [(self.itersrc(x, st, node.args[0] if node is not None else None), st)]

    def bi_next(self, args, kwargs, st, node):
        it = args[0]
        if not isinstance(it, VIter):
            raise OutOfSubset('next() of non-iterator', node)
        if it.static is not None:
            if it.static:
                return [(it.static[0], st)]
            return [self.raise_('StopIteration', st, 'next')]
        if it.keep is not None:
            raise OutOfSubset('next() of filtered iterator', node)
        s_ok = st.fork().add(it.n > 0)
        first = it.at(z3.IntVal(0), s_ok)
        if self.spec_mode:
            return [(first, s_ok)]
        s_ex = st.fork().add(z3.Not(it.n > 0))
        return [(first, s_ok), self.raise_('StopIteration', s_ex, 'next')]

    def bi_enumerate(self, args, kwargs, st, node):
        it = self.itersrc(args[0], st, node.args[0] if node is not None else None)
        if it.static is not None:
            return [(VIter(it.n, None, static=tuple(VTuple((VInt(z3.IntVal(k)), x)) for k, x in enumerate(it.static))), st)]
        if it.keep is not None:
            cnt, pos, rank = self.kept_positions(it.keep, it.n, st)
            return [(VIter(cnt, lambda i, s: VTuple((VInt(i), it.at(pos(i), s)))), st)]
        return [(VIter(it.n, lambda i, s: VTuple((VInt(i), it.at(i, s)))), st)]

    def bi_zip(self, args, kwargs, st, node):
        its = [self.itersrc(a, st, node.args[k] if node is not None else None) for k, a in enumerate(args)]
        if all(it.static is not None for it in its):
            n = min(len(it.static) for it in its)
            return [(VIter(z3.IntVal(n), None, static=tuple(VTuple(tuple(it.static[k] for it in its)) for k in range(n))), st)]
        filt = [it for it in its if it.keep is not None]
        if filt:
            return self.zip_filtered(its, st, node)
        n = its[0].n
        for it in its[1:]:
            n = z3.If(it.n < n, it.n, n)

        def at(i, s):
            return VTuple(tuple((it.static[0] if False else it.at(i, s)) if it.static is None else self.static_at(it, i, s) for it in its))
        return [(VIter(n, at), st)]

    def static_at(self, it, i, s):
        t = self.toVal(VTuple(tuple(it.static)), s)
        return VVal(z3.Select(self.th.sq_arr(t), i))

    def kept_positions(self, keep_at, n, st):
        """Canonical order-preserving enumeration of the indices i in [0,n) with keep_at(i).
        The function symbols are named after the (index-normalised) text of the predicate, so code and
        specification that filter by the same condition talk about the same enumeration."""
        import hashlib
        th = self.th
        probe = z3.Int('$i')
        s0 = State(dict(st.env), [])
        kp = z3.simplify(keep_at(probe, s0))
        n = z3.simplify(n) if z3.is_expr(n) else n
        key = hashlib.sha1((str(kp) + '|' + str(n)).encode()).hexdigest()[:12]
        cnt = z3.Int('kcnt_' + key)
        pos = th.fn('kpos_' + key, th.I, th.I)
        rank = th.fn('krank_' + key, th.I, th.I)
        j = z3.Int('j!kp')
        j2 = z3.Int('j2!kp')
        kj = lambda t: z3.substitute(kp, (probe, t))
        facts = [cnt >= 0, cnt <= n,
                 z3.ForAll([j], z3.Implies(z3.And(j >= 0, j < cnt),
                                           z3.And(pos(j) >= 0, pos(j) < n, kj(pos(j)), rank(pos(j)) == j)), patterns=[pos(j)]),
                 z3.ForAll([j, j2], z3.Implies(z3.And(j >= 0, j < j2, j2 < cnt), pos(j) < pos(j2)),
                           patterns=[z3.MultiPattern(pos(j), pos(j2))]),
                 z3.ForAll([j], z3.Implies(z3.And(j >= 0, j < n, kj(j)),
                                           z3.And(rank(j) >= 0, rank(j) < cnt, pos(rank(j)) == j)), patterns=[rank(j)])]
        for f in s0.pc:
            facts.append(z3.ForAll([probe], f))
        if key not in self.kept_cache:
            # definitional (the enumeration always exists): standing facts of this function's queries
            self.kept_cache.add(key)
            self.standing.extend(facts)
        return cnt, pos, rank

    def zip_filtered(self, its, st, node):
        """zip(filtered_source, plain_source): position j of the result pairs the j-th KEPT element of the
        first with element j of the second."""
        if len(its) != 2 or its[0].keep is None or its[1].keep is not None:
            raise OutOfSubset('zip with filtered source in this position', node)
        f, p = its
        cnt, pos, rank = self.kept_positions(f.keep, f.n, st)
        n = z3.If(p.n < cnt, p.n, cnt)
        res = VIter(n, lambda i, s: VTuple((f.at(pos(i), s), p.at(i, s))))
        return [(res, st)]

    def bi_filter(self, args, kwargs, st, node):
        fn, src = args
        it = self.itersrc(src, st, node.args[1] if node is not None else None)
        if it.static is not None:
            raise OutOfSubset('filter over static sequence', node)

        def keep(i, s):
            self.bool_ctx += 1
            try:
                r = self.call_sv(fn, [it.at(i, s)], {}, s, node)
            finally:
                self.bool_ctx -= 1
            oks = [(x, y) for x, y in r if not isinstance(x, Raised)]
            if len(r) != 1 or len(oks) != 1:
                raise OutOfSubset('filter predicate forks or raises', node)
            k = self.truth(oks[0][0], oks[0][1])
            return z3.And(k, it.keep(i, s)) if it.keep is not None else k
        return [(VIter(it.n, it.at, keep=keep), st)]

    def bi_map(self, args, kwargs, st, node):
        fn, src = args
        it = self.itersrc(src, st, node.args[1] if node is not None else None)
        if it.static is not None:
            outs = [([], st)]
            for item in it.static:
                nxt = []
                for acc, s in outs:
                    if isinstance(acc, Raised):
                        nxt.append((acc, s))
                        continue
                    for r, s2 in self.call_sv(fn, [item], {}, s, node):
                        nxt.append((r, s2) if isinstance(r, Raised) else (acc + [r], s2))
                outs = nxt
            return [((r if isinstance(r, Raised) else VIter(z3.IntVal(len(r)), None, static=tuple(r))), s) for r, s in outs]

        def at(i, s):
            r = self.call_sv(fn, [it.at(i, s)], {}, s, node)
            oks = [(x, y) for x, y in r if not isinstance(x, Raised)]
            if len(r) != 1 or len(oks) != 1:
                raise _MapForks()
            return oks[0][0]
        try:
            at(self.th.fresh('i', self.th.I), State(dict(st.env), list(st.pc)))
        except _MapForks:
            # the mapped function may raise or fork: map(f, xs) is the generator (f(x) for x in xs)
            if node is None or len(node.args) != 2 or node.keywords:
                raise OutOfSubset('map function forks or raises', node)
            gen = ast.GeneratorExp(elt=ast.Call(func=node.args[0], args=[ast.Name(id='_mx', ctx=ast.Load())], keywords=[]),
                                   generators=[ast.comprehension(target=ast.Name(id='_mx', ctx=ast.Store()), iter=node.args[1], ifs=[], is_async=0)])
            ast.copy_location(gen, node)
            ast.fix_missing_locations(gen)
            return self.ev(gen, st)
        return [(VIter(it.n, at, keep=it.keep), st)]

    def bi_reversed(self, args, kwargs, st, node):
        it = self.itersrc(args[0], st, node.args[0] if node is not None else None)
        if it.static is not None:
            return [(VIter(it.n, None, static=tuple(reversed(it.static))), st)]
        return [(VIter(it.n, lambda i, s: it.at(it.n - 1 - i, s), keep=(lambda i, s: it.keep(it.n - 1 - i, s)) if it.keep else None), st)]

    def bi_range(self, args, kwargs, st, node):
        if len(args) == 1:
            n = self.toInt(args[0], st)
            return [(VIter(z3.If(n > 0, n, 0), lambda i, s: VInt(i)), st)]
        lo, hi = self.toInt(args[0], st), self.toInt(args[1], st)
        return [(VIter(z3.If(hi > lo, hi - lo, 0), lambda i, s: VInt(lo + i)), st)]

    def bi_all(self, args, kwargs, st, node):
        return self.all_any(args[0], True, st, node)

    def bi_any(self, args, kwargs, st, node):
        return self.all_any(args[0], False, st, node)

    def all_any(self, x, is_all, st, node):
        th = self.th
        if isinstance(x, VTuple):
            ts = [self.truth(it, st) for it in x.items]
            return [(VBool((z3.And(ts) if is_all else z3.Or(ts)) if ts else z3.BoolVal(is_all)), st)]
        if not isinstance(x, VGen):
            it = self.itersrc(x, st, node.args[0] if node is not None else None)
            i = th.fresh('i', th.I)
            s0 = State(dict(st.env), list(st.pc))
            e = it.at(i, s0)
            tv = self.truth(e, s0)
            keep = it.keep(i, s0) if it.keep is not None else z3.BoolVal(True)
            rng = z3.And(i >= 0, i < it.n, keep)
            q = z3.ForAll([i], z3.Implies(rng, tv)) if is_all else z3.Exists([i], z3.And(rng, tv))
            return [(VBool(q), st)]
        g = x
        i = g.idx
        esv = getattr(g, '_elt_sv', None)
        s0 = State(dict(st.env), list(st.pc))
        tv = self.truth(esv, s0) if esv is not None else th.truthy(g.val)
        keep = g.keep if g.keep is not None else z3.BoolVal(True)
        rng = z3.And(i >= 0, i < g.n, keep)
        if g.excs and not self.spec_mode:
            good = tv if is_all else z3.Not(tv)      # element lets the scan continue
            outs = []
            j = th.fresh('j', th.I)
            facts = [z3.ForAll([i], z3.Implies(z3.And(i >= 0, i < g.n), f)) for f in g.facts]
            cont = lambda k: z3.ForAll([j], z3.Implies(z3.And(j >= 0, j < k, self.gen_at(g, keep, j)),
                                                       z3.And(self.gen_at(g, g.ok, j), self.gen_at(g, good, j))))
            # least-number principle (valid by well-ordering; the solver cannot derive it): if not every element lets the
            # scan continue, there is a FIRST one that does not
            kk = th.fresh('kmin', th.I)
            pj = lambda t: z3.And(self.gen_at(g, g.ok, t), self.gen_at(g, good, t))
            lnp = z3.Implies(z3.Not(z3.ForAll([j], z3.Implies(z3.And(j >= 0, j < g.n, self.gen_at(g, keep, j)), pj(j)))),
                             z3.Exists([kk], z3.And(kk >= 0, kk < g.n, self.gen_at(g, keep, kk), z3.Not(pj(kk)), cont(kk))))
            if self.lemma_sink is not None:
                self.lemma_sink.append(lnp)
            else:
                st.add(lnp)
            s_all = st.fork().add(*facts).add(cont(g.n))
            outs.append((VBool(z3.BoolVal(is_all)), s_all))
            k = th.fresh('k', th.I)
            s_stop = st.fork().add(*facts).add(k >= 0, k < g.n, self.gen_at(g, keep, k), self.gen_at(g, g.ok, k),
                                               z3.Not(self.gen_at(g, good, k)), cont(k))
            outs.append((VBool(z3.BoolVal(not is_all)), s_stop))
            for cond, (ecls, ev, origin) in g.excs:
                k2 = th.fresh('k', th.I)
                s_ex = st.fork().add(*facts).add(k2 >= 0, k2 < g.n, self.gen_at(g, keep, k2), self.gen_at(g, cond, k2), cont(k2))
                outs.append((Raised(VExc(ecls if z3.is_app(ecls) and ecls.num_args() == 0 else self.gen_at(g, ecls, k2),
                                         self.gen_at(g, ev, k2), origin)), s_ex))
            return outs
        facts = z3.And([f for f in g.facts]) if g.facts else z3.BoolVal(True)
        body = z3.And(g.ok, tv) if not z3.is_true(g.ok) else tv
        q = z3.ForAll([i], z3.Implies(z3.And(rng, facts), body)) if is_all else z3.Exists([i], z3.And(rng, facts, body))
        return [(VBool(q), st)]

    def bi_sum(self, args, kwargs, st, node):
        x = args[0]
        if isinstance(x, VTuple):
            tot = z3.IntVal(0)
            for it in x.items:
                tot = tot + self.toInt(it, st)
            return [(VInt(tot), st)]
        th = self.th
        t = th.fn('sum_of', th.Val, th.I)(self.toVal(x, st))
        return [(VInt(t), st)]

    def bi_print(self, args, kwargs, st, node):
        """print(*args, end=..., file=f): appends to the ghost output of `f` (C08)."""
        th = self.th
        f = kwargs.get('file')
        key = '$out'
        cur = st.env.get(key)
        if not isinstance(cur, VTuple):
            cur = VTuple(())
        parts = list(args)
        end = kwargs.get('end', self.const_sv('\n'))
        st.env[key] = VTuple(cur.items + tuple(parts) + (end,))
        return [(self.none(), st)]

    def bi_super(self, args, kwargs, st, node):
        return [(VBuiltin('superobj'), st)]

    def bi_sorted(self, args, kwargs, st, node):
        th = self.th
        t = th.fn('sorted_of', th.Val, th.Val)(self.toVal(args[0], st))
        return [(VVal(t, fresh=True, kind='seq'), st)]

    def bi_max(self, args, kwargs, st, node):
        th = self.th
        t = th.fn('max_of', th.Val, th.Val)(self.toVal(args[0] if len(args) == 1 else VTuple(tuple(args)), st))
        return [(VVal(t), st)]

    # -- typing / misc stdlib ------------------------------------------------------------------
    def opaque(self, name, args, st, kind=None, fresh=False):
        th = self.th
        a = [self.toVal(x, st) for x in args]
        t = th.fn('fn_' + name.replace('.', '_'), *([th.Val] * len(a)), th.Val)(*a) if a else th.const('fn0:' + name)
        return VVal(t, kind=kind, fresh=fresh)

    def bi_typing_get_origin(self, args, kwargs, st, node):
        return [(self.opaque('get_origin', args, st, kind='typeobj'), st)]

    def bi_typing_get_args(self, args, kwargs, st, node):
        r = self.opaque('get_args', args, st, kind='seq')
        st.add(self.th.vlen(r.term) >= 0)
        return [(r, st)]

    def bi_inspect_isabstract(self, args, kwargs, st, node):
        th = self.th
        return [(VBool(th.fn('isabstract', th.Val, th.B)(self.toVal(args[0], st))), st)]

    def bi_traceback_TracebackException(self, args, kwargs, st, node):
        th = self.th
        t = th.fn('mk_TBE', th.Val, th.Val)(self.toVal(args[1], st))
        st.add(t != th.NoneV, th.isc('TracebackException')(t))
        return [(VVal(t, fresh=True, kind='rec'), st)]

    def bi_re_compile(self, args, kwargs, st, node):
        th = self.th
        s = self.toVal(args[0], st)
        res = VVal(th.fn('re_compile', th.Val, th.Val)(s))
        if self.spec_mode:
            return [(res, st)]
        cr = th.fn('re_compile_raises', th.Val, th.B)(s)
        ec = th.fn('re_compile_exc', th.Val, th.Exc)(s)
        ev = th.fn('re_compile_excv', th.Val, th.Val)(s)
        s_ok = st.fork().add(z3.Not(cr), th.isc('Pattern')(res.term))
        s_ex = st.fork().add(cr)
        # assumed contract: re.compile raises SOME Exception (witnesses: re.error for '(' , OverflowError for 'a{4294967296}')
        return [(res, s_ok), (Raised(VExc(ec, ev, 're.compile')), s_ex)]

    def bi_warnings_warn(self, args, kwargs, st, node):
        return [(self.none(), st)]

    def bi_math_isfinite(self, args, kwargs, st, node):
        th = self.th
        return [(VBool(th.fn('isfinite', th.Val, th.B)(self.toVal(args[0], st))), st)]

    def bi_dataclasses_replace(self, args, kwargs, st, node):
        th = self.th
        o = self.toVal(args[0], st)
        # functional record update: fields named in kwargs replaced, all others equal (assumed stdlib contract)
        names = sorted(kwargs)
        r = th.fresh('replaced')
        facts = [r != th.NoneV, th.type_of(r) == th.type_of(o)]
        for n in names:
            facts.append(th.fld(n)(r) == self.toVal(kwargs[n], st))
        st.add(*facts)
        self.replaced.append((r, o, names))
        return [(VVal(r, fresh=True, kind='rec'), st)]

    def bi_copy_deepcopy(self, args, kwargs, st, node):
        th = self.th
        t = th.fn('deepcopy_of', th.Val, th.Val)(self.toVal(args[0], st))
        return [(VVal(t, fresh=True), st)]

    def bi_itertools_chain(self, args, kwargs, st, node):
        if all(isinstance(a, VTuple) for a in args):
            items = ()
            for a in args:
                items += a.items
            return [(VIter(z3.IntVal(len(items)), None, static=items), st)]
        th = self.th
        # chain(a, b) over symbolic sequences: concatenation with an index shift
        its = [self.itersrc(a, st, node.args[k] if node is not None else None) for k, a in enumerate(args)]
        if len(its) != 2 or any(it.keep is not None or it.static is not None for it in its):
            raise OutOfSubset('itertools.chain form', node)
        a, b = its
        return [(VIter(a.n + b.n, lambda i, s: VVal(z3.If(i < a.n, self.toVal(a.at(i, s), s), self.toVal(b.at(i - a.n, s), s)))), st)]

    # -- methods on opaque values ----------------------------------------------------------------
    def call_valmeth(self, meth, recv: VVal, args, kwargs, st, node):
        th = self.th
        t = recv.term
        kind = recv.kind
        origin = f'{meth}:{self.src(node)}'

        def need_attr(result_alts):
            if self.spec_mode or kind in ('map', 'seq', 'set', 'str', 'rec') and meth in ('items', 'keys', 'values', 'get') or kind == 'str':
                return self.outcomes(st, result_alts)
            if kind in ('rec', 'conv') or recv.cls is not None:
                return self.outcomes(st, result_alts)
            if self.src(node.func.value if node is not None and hasattr(node.func, 'value') else None) in self.total_attr_roots:
                return self.outcomes(st, result_alts)
            ha = th.has_attr(meth)(t)
            return self.outcomes(st, [(z3.And(ha, c), r) for c, r in result_alts] +
                                 [(z3.Not(ha), ('raise', 'AttributeError', f'{origin}:no-attr'))])

        T = z3.BoolVal(True)
        if kind == 'map' or (kind is None and meth in ('items', 'keys', 'values') and self.spec_mode):
            if meth in ('items', 'keys', 'values'):
                return [(self.map_iter(VVal(t, kind='map'), meth, st), st)]
            if meth == 'copy':
                return need_attr([(T, VMapB(th.m_hasA(t), th.m_getA(t)))])
            if meth == 'get':
                k = self.toVal(args[0], st)
                d = self.toVal(args[1], st) if len(args) > 1 else th.NoneV
                ek = self.shape_of(self.src(node.func.value) + '[]') if node is not None else None
                r = self.mkval(z3.If(z3.Select(th.m_hasA(t), k), z3.Select(th.m_getA(t), k), d), ek)
                return self.hash_guard(k, r, st, origin, args[0])
            if meth in ('pop', 'update', 'setdefault'):
                if not recv.fresh:
                    self.frame_violation(st, f'{self.src(node)}', node)
                # semantics as for a builder copy; a function-local mapping (e.g. **kwargs) is updated in place
                return self.call_builder(meth, VMapB(th.m_hasA(t), th.m_getA(t)), args, kwargs, st, node,
                                         rebind=('auto' if recv.fresh else None))
        if kind == 'set' and meth == 'copy':
            return [(VSetB(th.s_hasA(t)), st)]
        if kind == 'seq' and meth == 'copy':
            return self.container_ctor('list', [recv], st, node)
        if kind == 'set' and meth == 'add' and not recv.fresh and self.is_mutable_root(recv, st) and len(args) == 1 and not self.spec_mode:
            # in-place growth of a set owned by a receiver the function may modify (self.__pane_set__): ghost store read by shas()
            gk = f'$sets:{t}'
            prev = st.env.get(gk)
            prev_has = prev.has if isinstance(prev, VSetB) else th.s_hasA(t)
            k = self.toVal(args[0], st)
            st.env[gk] = VSetB(z3.Store(prev_has, k, True))
            self.frame_ok(st, f'{self.src(node)}')
            return need_attr([(T, self.none())]) if kind != 'set' else self.hash_guard(k, self.none(), st, origin, args[0])
        if meth in ('append', 'add', 'extend', 'update', 'pop', 'remove', 'discard', 'setdefault') and not recv.fresh \
                and not self.is_mutable_root(recv, st):
            self.frame_violation(st, f'{self.src(node)}', node)
        if meth == 'print_error' and not self.spec_mode:
            # virtual call through the ErrorNode interface: total, PROVIDED a DuplicateKeyError is never rendered inside a sum
            ins = kwargs.get('inside_sum', args[1] if len(args) > 1 else None)
            inside = self.truth(ins, st) if ins is not None else z3.BoolVal(False)
            self.emit(Obligation(self.cur_func_key, 'pre', f'{self.next_label()}:print_error', self.cur_props, list(st.pc),
                                 z3.Implies(th.isc('DuplicateKeyError')(t), z3.Not(inside)),
                                 origin=f'precondition of ErrorNode.print_error at {self.src(node)[:60]} (a duplicate-key node is not rendered inside a sum)',
                                 path_kind='call'))
        if meth == 'keys' and kind is None:
            raise OutOfSubset('keys() on value of unknown kind: add a shape hint', node)
        if len(args) == 1 and isinstance(args[0], VGen) and not kwargs:
            # a generator handed to a method of an opaque value (", ".join(f(x) for x in xs)): the method sees its items as a list
            outs_ = []
            for r_, s2_ in self.materialize(args[0], 'list', st, node):
                if isinstance(r_, Raised):
                    outs_.append((r_, s2_))
                else:
                    outs_.extend(self.call_valmeth(meth, recv, [r_], kwargs, s2_, node))
            return outs_
        spec = self.VAL_METHODS.get(meth)
        a = [t] + [self.toVal(x, st) for x in args] + [self.toVal(kwargs[k], st) for k in sorted(kwargs)]
        suffix = ('_kw_' + '_'.join(sorted(kwargs))) if kwargs else ''
        rt = th.fn(f'meth_{meth}_{len(a) - 1}{suffix}', *([th.Val] * len(a)), th.Val)(*a)
        rk = self.shape_of('.' + meth + '()')
        res = self.mkval(rt, rk, fresh=True)
        if meth in ('lower', 'upper', 'title', 'join', 'lstrip', 'rstrip', 'strip', 'isoformat', 'getvalue'):
            st.add(th.isc('str')(rt))
            res = VVal(rt, kind='str', fresh=True)
        if meth in ('islower', 'isupper', 'istitle', 'startswith', 'endswith', 'readable', 'writable', 'has_default'):
            res = VBool(th.fn(f'methb_{meth}_{len(a) - 1}', *([th.Val] * len(a)), th.B)(*a))
        if self.spec_mode or spec is None:
            return need_attr([(T, res)])
        cr = th.fn(f'methraises_{meth}_{len(a) - 1}', *([th.Val] * len(a)), th.B)(*a)
        if spec == 'any':
            ec = th.fn(f'methexc_{meth}_{len(a) - 1}', *([th.Val] * len(a)), th.Exc)(*a)
            s_ok = st.fork().add(z3.Not(cr))
            s_ex = st.fork().add(cr)
            return [(res, s_ok), (Raised(VExc(ec, th.fresh('excv'), origin)), s_ex)]
        alts = [(z3.Not(cr), res)]
        ecv = th.fn(f'methexc_{meth}_{len(a) - 1}', *([th.Val] * len(a)), th.Exc)(*a)
        outs = []
        s_ok = st.fork().add(z3.Not(cr))
        outs.append((res, s_ok))
        s_ex = st.fork().add(cr, z3.Or([ecv == th.exc[e] for e in spec]))
        outs.append((Raised(VExc(ecv if len(spec) > 1 else th.exc[spec[0]], th.fresh('excv'), origin)), s_ex))
        return outs

    # -- methods on containers under construction (always fresh) -------------------------------------
    def call_builder(self, meth, b, args, kwargs, st, node, rebind='auto'):
        th = self.th
        target = None
        if node is not None and isinstance(node.func, ast.Attribute):
            target = node.func.value

        def store(newb):
            if target is not None and rebind is not None:
                self.assign_target(target, newb, st, node, rebinding=True)
        if meth in ('append', 'add', 'pop', 'update', 'extend', 'setdefault', 'remove', 'discard') and rebind is not None:
            self.frame_ok(st, f'{self.src(node)[:60]}')
        if isinstance(b, VTuple) and b.is_list and meth == 'append':
            store(VTuple(b.items + (args[0],), True))
            return [(self.none(), st)]
        if isinstance(b, VListB) or (isinstance(b, VTuple) and b.is_list):
            if isinstance(b, VTuple):
                arr = th.dflt_seq
                for k, it in enumerate(b.items):
                    arr = z3.Store(arr, k, self.toVal(it, st))
                b = VListB(arr, z3.IntVal(len(b.items)))
            if meth == 'append':
                store(VListB(z3.Store(b.arr, b.n, self.toVal(args[0], st)), b.n + 1))
                return [(self.none(), st)]
            if meth == 'copy':
                return [(b, st)]
            if meth == 'extend':
                o = args[0]
                if isinstance(o, VTuple):
                    nb = b
                    for it in o.items:
                        nb = VListB(z3.Store(nb.arr, nb.n, self.toVal(it, st)), nb.n + 1)
                    store(nb)
                    return [(self.none(), st)]
                src = self.itersrc(o, st, node.args[0] if node is not None else None)
                if src.keep is not None or src.static is not None:
                    raise OutOfSubset('list.extend with filtered source', node)
                store(self.concat_list(b, src, st))
                return [(self.none(), st)]
        if isinstance(b, VSetB):
            if meth == 'add':
                k = self.toVal(args[0], st)
                store(VSetB(z3.Store(b.has, k, True)))
                return self.hash_guard(k, self.none(), st, f'add:{self.src(node)}', args[0])
            if meth == 'copy':
                return [(b, st)]
        if isinstance(b, VMapB):
            if meth == 'copy':
                return [(b, st)]
            if meth in ('items', 'keys', 'values'):
                t = self.toVal(b, st)
                return [(self.map_iter(VVal(t, kind='map'), meth, st), st)]
            if meth == 'pop':
                k = self.toVal(args[0], st)
                has = z3.Select(b.has, k)
                val = VVal(z3.Select(b.get, k))
                newb = VMapB(z3.Store(b.has, k, False), b.get)
                if len(args) > 1:
                    store_has = newb
                    store(newb)
                    return self.hash_guard(k, VVal(z3.If(has, val.term, self.toVal(args[1], st))), st, f'pop:{self.src(node)}', args[0])
                outs = []
                alts = [(has, 'ok'), (z3.Not(has), 'KeyError')]
                hk = z3.BoolVal(True) if self.known_hashable(args[0]) else th.hashable(k)
                s_ok = st.fork().add(hk, has)
                if target is not None and rebind is not None:
                    self.assign_target(target, newb, s_ok, node, rebinding=True)
                outs.append((val, s_ok))
                s_ke = st.fork().add(hk, z3.Not(has))
                outs.append(self.raise_('KeyError', s_ke, f'pop:{self.src(node)}'))
                if not z3.is_true(hk):
                    s_te = st.fork().add(z3.Not(hk))
                    outs.append(self.raise_('TypeError', s_te, f'pop:{self.src(node)}:unhashable'))
                return outs
            if meth == 'get':
                k = self.toVal(args[0], st)
                d = self.toVal(args[1], st) if len(args) > 1 else th.NoneV
                return self.hash_guard(k, VVal(z3.If(z3.Select(b.has, k), z3.Select(b.get, k), d)), st, f'get:{self.src(node)}', args[0])
            if meth == 'setdefault':
                k = self.toVal(args[0], st)
                d = self.toVal(args[1], st) if len(args) > 1 else th.NoneV
                cur = z3.If(z3.Select(b.has, k), z3.Select(b.get, k), d)
                store(VMapB(z3.Store(b.has, k, True), z3.Store(b.get, k, cur)))
                return self.hash_guard(k, VVal(cur), st, f'setdefault:{self.src(node)}', args[0])
            if meth == 'update':
                m = b
                for kname, v in kwargs.items():
                    kt = th.strc(kname)
                    m = VMapB(z3.Store(m.has, kt, True), z3.Store(m.get, kt, self.toVal(v, st)))
                for a in args:
                    if isinstance(a, VMapB):
                        oh, og = a.has, a.get
                    elif isinstance(a, VVal) and a.kind == 'map':
                        oh, og = th.m_hasA(a.term), th.m_getA(a.term)
                    else:
                        raise OutOfSubset('dict.update argument', node)
                    k = z3.Const('k!u', th.Val)
                    m = VMapB(z3.Lambda([k], z3.Or(z3.Select(m.has, k), z3.Select(oh, k))),
                              z3.Lambda([k], z3.If(z3.Select(oh, k), z3.Select(og, k), z3.Select(m.get, k))))
                store(m)
                return [(self.none(), st)]
        raise OutOfSubset(f'method {meth} on {type(b).__name__}', node)

    # -- spec vocabulary ----------------------------------------------------------------------------
    def call_spec(self, name, args, kwargs, st, node):
        th = self.th
        V = lambda k: self.toVal(args[k], st)
        if name == 'acc':
            return [(VBool(th.acc(V(0), V(1))), st)]
        if name == 'out':
            return [(VVal(th.out(V(0), V(1))), st)]
        if name == 'err':
            e = th.err(V(0), V(1))
            return [(VVal(e, kind='rec'), st)]
        if name == 'ser':
            return [(VVal(th.ser(V(0), V(1))), st)]
        if name == 'expected_of':
            p = V(1) if len(args) > 1 else th.FalseV
            return [(VVal(th.expd(V(0), p), kind='str'), st)]
        if name == 'is_none':
            return [(VBool(V(0) == th.NoneV), st)]
        if name == 'hashable':
            return [(VBool(th.hashable(V(0))), st)]
        if name == 'truthy':
            return [(VBool(self.truth(args[0], st)), st)]
        if name == 'iff':
            return [(VBool(self.truth(args[0], st) == self.truth(args[1], st)), st)]
        if name in ('callraises', 'call'):
            f = args[0]
            a = [self.toVal(x, st) for x in args]
            n = len(a) - 1
            names = sorted(kwargs)
            a += [self.toVal(kwargs[k], st) for k in names]
            suffix = ('_kw_' + '_'.join(names)) if names else ''
            n = len(a) - 1
            if name == 'call':
                return [(VVal(th.fn(f'call_{n}{suffix}', *([th.Val] * (n + 1)), th.Val)(*a)), st)]
            return [(VBool(th.fn(f'craises_{n}{suffix}', *([th.Val] * (n + 1)), th.B)(*a)), st)]
        if name in ('callv', 'callvraises'):
            # callv(fn, posseq, kwmap=None)
            fv, sv = V(0), V(1)
            kv = V(2) if len(args) > 2 else th.NoneV
            names_ = '_'.join(sorted(kwargs))
            a = [fv, sv, kv] + [self.toVal(kwargs[k_], st) for k_ in sorted(kwargs)]      # keyword arguments passed by name, as in f(*a, **kw, x=1)
            sig = [th.Val] * len(a)
            if name == 'callv':
                return [(VVal(th.fn('callv_' + names_, *sig, th.Val)(*a), fresh=True), st)]
            return [(VBool(th.fn('callvraises_' + names_, *sig, th.B)(*a)), st)]
        if name == 'catches' or name == 'exc_is':
            e, c = args
            if not isinstance(e, VExc) or not isinstance(c, VClass):
                raise OutOfSubset('exc_is(exc, Class)', node)
            return [(VBool(th.exc_catches(c.name, e.cls)), st)]
        if name == 'is_int_key':
            v = V(0)
            return [(VBool(z3.And(th.isc('int')(v), z3.Not(th.isc('bool')(v)), th.mk_int(th.int_of(v)) == v)), st)]
        if name == 'int_key':
            return [(VInt(th.int_of(V(0))), st)]
        if name == 'attr_named':
            n = args[1]
            return [(VVal(th.fld(n.py[1])(V(0))), st)]
        if name == 'attr':
            n = args[1]
            if isinstance(n, VVal) and n.py is not None:
                return [(self.mkval(th.fld(n.py[1])(V(0)), self.shape_of('.' + n.py[1])), st)]
            raise OutOfSubset('attr(o, "name")', node)
        if name == 'dynattr':
            return [(VVal(th.fn('dynattr', th.Val, th.Val, th.Val)(V(0), V(1))), st)]
        if name == 'has_attr':
            n = args[1]
            base = th.has_attr(n.py[1])(V(0))
            store = st.env.get(f'$attrs:{V(0)}')
            if isinstance(store, VMapB):      # attributes written by the function body so far exist
                base = z3.Or(z3.Select(store.has, th.strc(n.py[1])), base)
            return [(VBool(base), st)]
        if name == 'key_at':
            return [(VVal(th.m_key(V(0), self.toInt(args[1], st))), st)]
        if name == 'idx_of':
            return [(VInt(th.m_idx(V(0), V(1))), st)]
        if name == 'is_fresh':
            return [(VBool(z3.BoolVal(isinstance(args[0], (VMapB, VSetB, VListB, VTuple)) or (isinstance(args[0], VVal) and args[0].fresh))), st)]
        if name == 'typeof':
            return [(VVal(th.type_of(V(0)), kind='typeobj'), st)]
        if name == 'isinst_dyn':
            return [(VBool(th.isinst_dyn(V(0), V(1))), st)]
        if name == 'lt':
            return [(VBool(th.fn('val_lt', th.Val, th.Val, th.B)(V(0), V(1))), st)]
        if name == 'card':
            return self.bi_len(args, kwargs, st, node)
        if name == 'get_origin':
            return self.bi_typing_get_origin(args, kwargs, st, node)
        if name == 'get_args':
            return self.bi_typing_get_args(args, kwargs, st, node)
        if name == 'isabstract':
            return self.bi_inspect_isabstract(args, kwargs, st, node)
        if name == 'issub':
            return [(r, s2) for r, s2 in self.bi_issubclass(args, kwargs, st, node) if not isinstance(r, Raised)]
        if name == 'callraises_as':
            # callraises_as("NotImplementedError", fn, *args, **kw): the call raises an exception of that class
            cname = args[0].py[1]
            a = [self.toVal(x, st) for x in args[1:]]
            names = sorted(kwargs)
            a += [self.toVal(kwargs[k], st) for k in names]
            suffix = ('_kw_' + '_'.join(names)) if names else ''
            n = len(a) - 1
            sig = [th.Val] * (n + 1)
            cr = th.fn(f'craises_{n}{suffix}', *sig, th.B)(*a)
            ec = th.fn(f'cexc_{n}{suffix}', *sig, th.Exc)(*a)
            return [(VBool(z3.And(cr, th.exc_catches(cname, ec))), st)]
        if name == 'methv':
            return [(self.mkval(th.fn('methv_' + args[0].py[1], th.Val, th.Val, th.Val, th.Val)(V(1), V(2), V(3)),
                                self.shape_of('.' + args[0].py[1] + '()')), st)]
        if name == 'getattr':
            return self.bi_getattr(args, kwargs, st, node)
        if name == 'hash_of':
            return [(VVal(th.fn('hash_of', th.Val, th.Val)(V(0)), kind='int'), st)]
        if name == 'deepcopy_of':
            return [(VVal(th.fn('deepcopy_of', th.Val, th.Val)(V(0))), st)]
        if name == 'closure_of':
            return [(VVal(th.fn('closure_code', th.Val, th.Val)(V(0)), kind='str'), st)]
        if name == 'closure_free':
            return [(VVal(th.fn('closure_free_' + args[1].py[1], th.Val, th.Val)(V(0))), st)]
        if name == 'fnref':
            fi = self.idx.funcs.get(args[0].py[1])
            if fi is None:
                raise OutOfSubset('fnref: unknown function ' + str(args[0].py[1]))
            return [(VVal(self.toVal(VFunc(fi.node, {}, fi.module, fi.qualname), st)), st)]
        if name in ('ext', 'did_call'):
            # ext("json.load", *args, **kw): the value that external call returns; did_call(...): it was made on this path
            t, fname, a = self.external_term(args[0].py[1], list(args[1:]), kwargs, st)
            if name == 'ext':
                return [(self.mkval(t, self.shape_of('ext:' + args[0].py[1])), st)]
            log = st.env.get('$calls')
            items = log.items if isinstance(log, VTuple) else ()
            return [(VBool(z3.Or([it_.term == t for it_ in items]) if items else z3.BoolVal(False)), st)]
        if name == 'exited':
            # exited(cm): the context manager cm was exited (its __exit__ ran) on this path
            log = st.env.get('$cm_exits')
            items = log.items if isinstance(log, VTuple) else ()
            cv = V(0)
            return [(VBool(z3.Or([self.toVal(it_, st) == cv for it_ in items]) if items else z3.BoolVal(False)), st)]
        if name == 'cm_enter':
            return [(self.mkval(th.fn('cm_enter', th.Val, th.Val)(V(0)), None), st)]
        if name == 'made':
            # made(ret("mod:func", args...)): that call of a function under contract was made on this path
            log = st.env.get('$calls')
            items = log.items if isinstance(log, VTuple) else ()
            fv = V(0)
            return [(VBool(z3.Or([it_.term == fv for it_ in items]) if items else z3.BoolVal(False)), st)]
        if name == 'called':
            # called(fn): how many times the user callable fn was invoked on this path (ghost call log)
            log = st.env.get('$calls')
            items = log.items if isinstance(log, VTuple) else ()
            fv = V(0)
            tot = z3.IntVal(0)
            for it_ in items:
                tot = tot + z3.If(it_.term == fv, 1, 0)
            return [(VInt(tot), st)]
        if name == 'id_of':
            return [(VVal(th.fn('id_of', th.Val, th.Val)(V(0)), kind='int'), st)]
        if name == 'clsref_dotted':
            return [(self.resolve_dotted(args[0].py[1], node), st)]
        if name == 'clsref':
            return [(VClass(args[0].py[1]), st)]
        if name in ('ret_make_converter', 'ret_into_data', 'ret', 'retc'):
            from .ex_call import san_key
            if name in ('ret', 'retc'):
                key, rest = args[0].py[1], list(args[1:])
            else:
                key, rest = {'ret_make_converter': 'pane.convert:make_converter', 'ret_into_data': 'pane.convert:into_data'}[name], list(args)
            con = self.contracts.get(key)
            fi = self.idx.funcs.get(key)
            if name == 'retc' and con is not None and fi is not None and not con.trusted and con.ensures:
                # the value a call would return, together with what the callee's contract guarantees about it
                f = VFunc(fi.node, {}, fi.module, fi.qualname)
                oks = [(r, s2) for r, s2 in self.apply_contract(con, f, None, rest, {}, st, node) if not isinstance(r, Raised)]
                if len(oks) == 1:
                    st.pc[:] = oks[0][1].pc
                    return [(oks[0][0], st)]
            a_ = fi.node.args
            pn = [p.arg for p in a_.posonlyargs + a_.args + a_.kwonlyargs]
            vals = [self.toVal(x, st) for x in rest]
            # missing trailing parameters take their declared defaults (evaluated like a call would)
            if len(vals) < len(pn):
                env = self.bind_params(fi.node, rest, {}, st, module=fi.module)
                vals = [self.toVal(env[p], st) for p in pn]
            t_ = th.fn('ret_' + san_key(key), *([th.Val] * len(vals)), th.Val)(*vals)
            return [(self.mkval(t_, con.result_kind if con else None), st)]
        if name == 'isfinite':
            return [(VBool(th.fn('isfinite', th.Val, th.B)(V(0))), st)]
        if name == 'zlen':
            a_, b_ = self.toInt(args[0], st), self.toInt(args[1], st)
            return [(VInt(z3.If(b_ < a_, b_, a_)), st)]
        if name == 'ghost_int':
            ps = [self.toVal(x, st) for x in args[1:]]
            return [(VInt(th.fn('ghosti_' + args[0].py[1], *([th.Val] * len(ps)), th.I)(*ps)), st)]
        if name == 'ghost':
            # ghost("NAME", *entry_params) -> Bool
            ps = [self.toVal(x, st) for x in args[1:]]
            return [(VBool(th.fn('ghost_' + args[0].py[1], *([th.Val] * len(ps)), th.B)(*ps)), st)]
        if name in ('mhas', 'mget', 'without_key'):
            m = args[0]
            if isinstance(m, VMapB):
                has, get = m.has, m.get
            else:
                has, get = th.m_hasA(V(0)), th.m_getA(V(0))
            k = V(1)
            if name == 'mhas':
                return [(VBool(z3.Select(has, k)), st)]
            if name == 'mget':
                return [(VVal(z3.Select(get, k)), st)]
            return [(VMapB(z3.Store(has, k, False), get), st)]
        if name == 'shas':
            s_ = args[0]
            has = s_.has if isinstance(s_, VSetB) else th.s_hasA(V(0))
            if not isinstance(s_, VSetB) and isinstance(st.env.get(f'$sets:{V(0)}'), VSetB):
                has = st.env[f'$sets:{V(0)}'].has      # the set as grown in place by the function body
            return [(VBool(z3.Select(has, V(1))), st)]
        if name in ('as_map', 'as_seq', 'as_set'):
            return [(VVal(V(0), kind={'as_map': 'map', 'as_seq': 'seq', 'as_set': 'set'}[name], fresh=getattr(args[0], 'fresh', False)), st)]
        if name == 'sat':
            a0 = args[0]
            if isinstance(a0, VListB):
                return [(VVal(z3.Select(a0.arr, self.toInt(args[1], st))), st)]
            return [(VVal(z3.Select(th.sq_arr(V(0)), self.toInt(args[1], st))), st)]
        if name in ('slen', 'mlen'):
            return self.bi_len([args[0] if not isinstance(args[0], VVal) else VVal(args[0].term, kind='seq')], {}, st, node)
        if name == 're_compile_raises':
            return [(VBool(th.fn('re_compile_raises', th.Val, th.B)(V(0))), st)]
        if name == 're_compile':
            return [(VVal(th.fn('re_compile', th.Val, th.Val)(V(0))), st)]
        if name in ('methraises', 'methcall'):
            # methraises("fromisoformat", recv, *args)
            mname = args[0].py[1]
            a = [self.toVal(x, st) for x in args[1:]]
            if name == 'methraises':
                return [(VBool(th.fn(f'methraises_{mname}_{len(a) - 1}', *([th.Val] * len(a)), th.B)(*a)), st)]
            return [(VVal(th.fn(f'meth_{mname}_{len(a) - 1}', *([th.Val] * len(a)), th.Val)(*a)), st)]
        raise OutOfSubset(f'spec function {name}', node)
