# pane/annotations.py: conditions restrict exactly by their predicate (C13)
# cond_true(c, v): the predicate of condition c holds on v (a raising predicate does not hold)

def cond_true(c, v):
    return (not callraises(c.f, v)) and truthy(call(c.f, v))


def cond_raises(c, v):
    return callraises(c.f, v)


def ge(v, m):      # v >= m in the model's (opaque, strict) order
    return lt(m, v) or v == m


def le(v, m):
    return lt(v, m) or v == m


# ---- stock conditions: the arithmetic predicate the documentation names -------------------------------------
TABLE("pane.annotations", "Positive",
      ensures=[(lambda value: forall_val(lambda v: cond_true(value, v) == lt(0, v)), ["C13"], "table")])
TABLE("pane.annotations", "Negative",
      ensures=[(lambda value: forall_val(lambda v: cond_true(value, v) == lt(v, 0)), ["C13"], "table")])
TABLE("pane.annotations", "NonPositive",
      ensures=[(lambda value: forall_val(lambda v: cond_true(value, v) == le(v, 0)), ["C13"], "table")])
TABLE("pane.annotations", "NonNegative",
      ensures=[(lambda value: forall_val(lambda v: cond_true(value, v) == ge(v, 0)), ["C13"], "table")])
TABLE("pane.annotations", "Finite",
      ensures=[(lambda value: forall_val(lambda v: cond_true(value, v) == isfinite(v)), ["C13"], "table")])
TABLE("pane.annotations", "Empty",
      ensures=[(lambda value: forall_val(lambda v: implies(has_attr(v, "__len__"), cond_true(value, v) == (slen(v) == 0))), ["C13"], "table")])
TABLE("pane.annotations", "NonEmpty",
      ensures=[(lambda value: forall_val(lambda v: implies(has_attr(v, "__len__"), cond_true(value, v) == (slen(v) != 0))), ["C13"], "table")])

# ---- value / length ranges: inclusive on both sides, an absent bound does not restrict ---------------------------
SPEC("pane.annotations", "val_range",
     ensures=[(lambda min, max, result: forall_val(lambda v: cond_true(result, v) ==
                                                   ((min is None or ge(v, min)) and (max is None or le(v, max)))), ["C13"], "range")],
     no_raise=["C13"])

SPEC("pane.annotations", "len_range",
     shapes={"min": "int", "max": "int"},
     ensures=[(lambda min, max, result: forall_val(lambda v: implies(
         has_attr(v, "__len__"),
         cond_true(result, v) == ((min is None or slen(v) >= int_key(min)) and (max is None or slen(v) <= int_key(max))))), ["C13"], "range")],
     no_raise=["C13"])

# ---- combinators --------------------------------------------------------------------------------------------
SPEC("pane.annotations", "Condition.all",
     shapes={"conditions": "seq", "conditions[]": "rec:Condition", "cond": "rec:Condition"},
     ensures=[(lambda conditions, make_expected, result: forall_val(lambda v: cond_true(result, v) ==
               forall(range(slen(conditions)), lambda j: cond_true(sat(conditions, j), v))), ["C13"], "and"),
              (lambda conditions, make_expected, result: isinstance(result, Condition), ["C13"], "type")],
     total=True, no_raise=["C13"])

SPEC("pane.annotations", "Condition.any",
     shapes={"conditions": "seq", "conditions[]": "rec:Condition", "cond": "rec:Condition"},
     ensures=[(lambda conditions, make_expected, result: forall_val(lambda v: cond_true(result, v) ==
               exists(range(slen(conditions)), lambda k: cond_true(sat(conditions, k), v)
                      and forall(range(k), lambda j: not cond_raises(sat(conditions, j), v)))), ["C13"], "or"),
              (lambda conditions, make_expected, result: isinstance(result, Condition), ["C13"], "type")],
     total=True, no_raise=["C13"])

SPEC("pane.annotations", "Condition.__invert__",
     ensures=[(lambda self, result: forall_val(lambda v: cond_true(result, v) ==
               ((not cond_raises(self, v)) and not truthy(call(self.f, v)))), ["C13"], "not")],
     no_raise=["C13"])

SPEC("pane.annotations", "Condition.__and__",
     ensures=[(lambda self, other, result: forall_val(lambda v: cond_true(result, v) == (cond_true(self, v) and cond_true(other, v))), ["C13"], "and")],
     no_raise=["C13"])

SPEC("pane.annotations", "Condition.__or__",
     ensures=[(lambda self, other, result: forall_val(lambda v: cond_true(result, v) ==
               (cond_true(self, v) or ((not cond_raises(self, v)) and cond_true(other, v)))), ["C13"], "or")],
     no_raise=["C13"])

# a Condition annotation builds a ConditionalConverter around the SAME predicate, threading the handlers
SPEC("pane.annotations", "Condition._converter",
     ensures=[(lambda self, inner_type, handlers, result: result.condition is self.f and result.inner_type is inner_type
               and result.handlers is handlers, ["C13", "C18"], "wiring")])


# ---------------------------------------------------------------------------------------------
# Annotated[T, ...] (convert.py:_annotated_converter): several conditions on one annotation are bundled with all();
# anything that is not a pane annotation is refused BEFORE any data is looked at (C04)
def all_conditions(args, n):
    return forall(range(n), lambda j: isinstance(sat(args, j), Condition))


SPEC("pane.convert", "_annotated_converter",
     shapes={"args": "seq", "args[]": "rec:Condition"},
     ensures=[
         (lambda ty, args, handlers, result: implies(slen(args) == 0, result == ite(isinstance(ty, Converter), ty, mkconv(ty, handlers))), ["C13"], "no-annotation"),
         # exactly one condition: that condition's converter around T, built with the same handlers
         (lambda ty, args, handlers, result: implies(slen(args) == 1 and isinstance(sat(args, 0), Condition),
                                                     exists_val(lambda R: R == call(attr(sat(args, 0), "_converter"), ty, handlers=handlers)
                                                                and result == ite(isinstance(R, Converter), R, mkconv(R, handlers)))), ["C13", "C18"], "one-condition"),
         # several conditions: ONE conditional converter whose predicate is their conjunction
         (lambda ty, args, handlers, result: implies(slen(args) > 1 and all_conditions(args, slen(args)),
                                                     exists_val(lambda C: isinstance(C, Condition)
                                                                and forall_val(lambda v: cond_true(C, v) == forall(range(slen(args)), lambda j: cond_true(sat(args, j), v)))
                                                                and exists_val(lambda R: R == call(attr(C, "_converter"), ty, handlers=handlers)
                                                                               and result == ite(isinstance(R, Converter), R, mkconv(R, handlers))))),
          ["C13", "C18"], "bundled")],
     raises=(lambda ty, args, handlers, exc: exc_is(exc, UnsupportedAnnotation) or exc_is(exc, TypeError), ["C04"]),
     raises_assumed=True,
     note="exceptional clause assumed for callers (annotation _converter methods raise TypeError at most)",
     invariants={0: lambda it, conditions, conv, ty, args: implies(all_conditions(args, it),
                                                                   conv is ty and slen(conditions) == it
                                                                   and forall(range(it), lambda j: sat(conditions, j) == sat(args, j)))})

# a non-annotation argument is refused
SPEC("pane.annotations", "Tagged._converter",
     ensures=[(lambda self, inner_type, handlers, result: result == TaggedUnionConverter(
         tuple(ret("pane.util:flatten_union_args", get_args(inner_type))), tag=self.tag, external=self.external, handlers=handlers), ["C12", "C18"], "wiring")],
     raises=(lambda self, inner_type, handlers, exc: exc_is(exc, TypeError) or exc_is(exc, UnsupportedAnnotation), ["C12", "C04"]))
