# PaneBase instance protocol (C16): frozen enforcement, set-field tracking, copy / deepcopy / replace, repr, dict()

BASE_SHAPES = {"self.__pane_info__.fields": "seq", "self.__pane_info__.fields[]": "rec:Field", "field": "rec:Field", ".name": "str",
               "opts": "rec:PaneOptions", "set_fields": "set", ".__pane_set__": "set", "changes": "map"}


def nfields(self):
    return slen(self.__pane_info__.fields)


def fname(self, i):
    return sat(self.__pane_info__.fields, i).name


def is_field_name(self, k):
    return exists(range(nfields(self)), lambda i: fname(self, i) == k)


# ---- assignment: refused on a frozen class, otherwise stored and recorded as explicitly set ------------------------------
SPEC("pane.classes", "PaneBase.__setattr__",
     shapes=BASE_SHAPES, mutable=["self"],
     returns_iff=(lambda self, name, value: not truthy(self.__pane_info__.opts.frozen), ["C16"]),
     ensures=[(lambda self, name, value: getattr(self, name) == value, ["C16"], "stored"),
              (lambda self, name, value: shas(as_set(getattr(self, "__pane_set__")), name), ["C16", "C14"], "recorded")],
     raises=(lambda self, name, value, exc: exc_is(exc, FrozenInstanceError) or exc_is(exc, TypeError), ["C16"]),
     note="TypeError: an unhashable attribute name cannot be recorded (cannot happen through the attribute-assignment syntax)")

# ---- deletion is always refused ---------------------------------------------------------------------------------------------
SPEC("pane.classes", "PaneBase.__delattr__",
     returns_iff=(lambda self, name: False, ["C16"]),
     raises=(lambda self, name, exc: exc_is(exc, AttributeError), ["C16"]))


# ---- copy: every field value verbatim, the SAME set-field record, through the unchecked constructor ---------------------
def is_field_dict(self, D, value_of):
    return forall(range(nfields(self)), lambda i: mhas(D, fname(self, i)) and mget(D, fname(self, i)) == value_of(i)) \
        and forall_val(lambda k: implies(mhas(D, k), is_field_name(self, k)))


SPEC("pane.classes", "PaneBase.__copy__",
     shapes=BASE_SHAPES,
     ensures=[(lambda self, result: exists_val(lambda D: is_field_dict(self, D, lambda i: getattr(self, fname(self, i)))
                                               and result == call(attr(self, "from_dict_unchecked"), D, set_fields=getattr(self, "__pane_set__")),
                                               hint=lambda: {fname(self, i): getattr(self, fname(self, i)) for i in range(nfields(self))}),
               ["C16"], "copy")])

SPEC("pane.classes", "PaneBase.__deepcopy__",
     shapes=BASE_SHAPES, mutable=["memo"],
     ensures=[(lambda self, memo, result: exists_val(lambda D: is_field_dict(self, D, lambda i: deepcopy_of(getattr(self, fname(self, i))))
                                                     and result == call(attr(self, "from_dict_unchecked"), D, set_fields=getattr(self, "__pane_set__")),
                                                     hint=lambda: {fname(self, i): deepcopy_of(getattr(self, fname(self, i))) for i in range(nfields(self))}),
               ["C16"], "deepcopy")])

# ---- replace: the explicitly set fields, overridden by the changes, go through the CHECKED constructor --------------------
SPEC("pane.classes", "PaneBase.__replace__",
     shapes=BASE_SHAPES,
     ensures=[(lambda self, changes, result: exists_val(lambda D:
               forall_val(lambda k: mhas(D, k) == (mhas(changes, k) or (is_field_name(self, k) and shas(as_set(getattr(self, "__pane_set__")), k))))
               and forall_val(lambda k: implies(mhas(D, k), mget(D, k) == ite(mhas(changes, k), mget(changes, k), getattr(self, k))))
               and result == callv(attr(self, "__class__"), None, D),
               hint=lambda: {**{fname(self, i): getattr(self, fname(self, i)) for i in range(nfields(self))
                                if fname(self, i) in getattr(self, "__pane_set__")}, **dict(changes)}), ["C16"], "replace")])


# ---- repr: ClassName(f1=..., f2=...) over the repr-fields, in field order ---------------------------------------------------
def repr_item(self, i):
    return f"{fname(self, i)}={getattr(self, fname(self, i))!r}"


def repr_inside(self):
    return methcall("join", ", ", kept_seq("list", nfields(self), lambda i: truthy(sat(self.__pane_info__.fields, i).repr), lambda i: repr_item(self, i)))


SPEC("pane.classes", "PaneBase.__repr__",
     shapes=BASE_SHAPES,
     ensures=[(lambda self, result: result == f"{self.__class__.__name__}({repr_inside(self)})", ["C16", "C17"], "repr")])


# ---- dict(): the non-excluded fields (or exactly the explicitly set ones), keyed by the renamed field name ---------------
def rf(name, style):
    return ret("pane.field:rename_field", name, style)


SPEC("pane.classes", "PaneBase.dict",
     shapes=BASE_SHAPES,
     assumes=[lambda self, set_only, rename: forall_val(lambda k: hashable(rf(k, rename)))],
     ensures=[(lambda self, set_only, rename, result: implies(truthy(set_only),
               forall_val(lambda k: implies(shas(as_set(getattr(self, "__pane_set__")), k), mhas(result, rf(k, rename))))
               and forall_val(lambda k2: implies(mhas(result, k2), exists_val(
                   lambda k: shas(as_set(getattr(self, "__pane_set__")), k) and rf(k, rename) == k2 and mget(result, k2) == getattr(self, k))))),
               ["C14", "C16", "C20"], "set-only"),
              (lambda self, set_only, rename, result: implies(not truthy(set_only),
               forall(range(nfields(self)), lambda i: implies(not truthy(sat(self.__pane_info__.fields, i).exclude), mhas(result, rf(fname(self, i), rename))))
               and forall_val(lambda k2: implies(mhas(result, k2), exists(range(nfields(self)), lambda i:
                   not truthy(sat(self.__pane_info__.fields, i).exclude) and rf(fname(self, i), rename) == k2
                   and mget(result, k2) == getattr(self, fname(self, i)))))),
               ["C05", "C16", "C20"], "all-fields")])


# ---- the converter of a dataclass: the class (subscripted by the type arguments, if any) with the handlers threaded (C18) -------
SPEC("pane.classes", "PaneBase._converter",
     shapes={"args": "seq", "cls": "typeobj"},
     ensures=[(lambda cls, args, handlers, result: implies(slen(args) == 0, result == PaneConverter(cls, handlers=handlers)), ["C15", "C18"], "plain"),
              (lambda cls, args, handlers, result: implies(slen(args) > 0, exists_val(lambda sub: result == PaneConverter(sub, handlers=handlers))), ["C17", "C18"], "subscripted")])
