# pane/util.py

SPEC("pane.util", "flatten_union_args", trusted=True, total=True, result_kind="seq",
     note="assumed: returns the members of nested typing.Union arguments in order (recursive generator: outside the interpreted subset; "
          "exercised by the run-time contract check only)")


# ---------------------------------------------------------------------------------------------
# KeyCache.__call__, unbounded mode (the mode make_converter uses): memoisation is transparent (C10)
# ghost history: every cached entry was produced by inner_f on SOME arguments with that key
def cache_inv(self):
    return forall_val(lambda k: implies(mhas(self.cache, k), exists_val(lambda a: exists_val(lambda kw:
        callv(self.key_f, a, kw) == k and not callvraises(self.inner_f, a, kw) and mget(self.cache, k) == callv(self.inner_f, a, kw)))))


def key_determines_result(self):
    # equal keys mean interchangeable arguments (for make_converter: id(ty) identifies ty only while ty is alive, see known findings)
    return forall_val(lambda a: forall_val(lambda kw: forall_val(lambda a2: forall_val(lambda kw2: implies(
        callv(self.key_f, a, kw) == callv(self.key_f, a2, kw2),
        callv(self.inner_f, a, kw) == callv(self.inner_f, a2, kw2) and callvraises(self.inner_f, a, kw) == callvraises(self.inner_f, a2, kw2))))))


def refs_inv(self):
    # every cached key has its arguments retained
    return forall_val(lambda k: implies(mhas(self.cache, k), mhas(self._refs, k)))


def refs_inv0(self):
    return True


SPEC("pane.util", "KeyCache.__call__",
     shapes={"self.cache": "map", "self._refs": "map", "args": "seq", "kwargs": "map", "self._missing": ""},
     mutable=["self"],
     requires=[lambda self, args, kwargs: is_none(self.maxsize),
               lambda self, args, kwargs: cache_inv(self),
               lambda self, args, kwargs: key_determines_result(self),
               lambda self, args, kwargs: forall_val(lambda k: implies(mhas(self.cache, k), mget(self.cache, k) is not self._missing)),
               lambda self, args, kwargs: refs_inv(self)],
     assumes=[lambda self, args, kwargs: hashable(callv(self.key_f, args, kwargs))],
     note="LRU mode (maxsize given): see the bounded contract KeyCache.__call__.lru.bounded; thread interleavings are outside this technique",
     ensures=[(lambda self, args, kwargs, result: result == callv(self.inner_f, args, kwargs), ["C10"], "transparent"),
              (lambda self, args, kwargs, result: cache_inv(self), ["C10"], "history-invariant"),
              # retention: the arguments behind every key stay referenced from the cache, so an id()-based key cannot be
              # re-issued to a different object while its entry exists
              (lambda self, args, kwargs, result: refs_inv(self) and mhas(self._refs, callv(self.key_f, args, kwargs)), ["C10"], "retains")],
     # memoisation is transparent for failures too: nothing is raised that the key function or the wrapped function did not raise
     raises=(lambda self, args, kwargs, exc: callvraises(self.key_f, args, kwargs) or callvraises(self.inner_f, args, kwargs), ["C10"]),
     frame=["C10"])


# the key function of make_converter identifies its arguments, GIVEN that the type objects behind cached keys are alive
# together (id() is unique among simultaneously live objects - CPython guarantee, assumed; retention is the obligation above)
LEMMA("make_converter_key_identifies_arguments",
      forall={"ty": "", "h": "", "ty2": "", "h2": ""},
      requires=[lambda ty, h, ty2, h2: implies(id_of(ty) == id_of(ty2), ty == ty2)],
      goal=[(lambda ty, h, ty2, h2: implies(retc("pane.convert:_make_converter_key_f", ty, h) == retc("pane.convert:_make_converter_key_f", ty2, h2),
                                            ty == ty2 and h == h2), ["C10", "C18"])])


# make_converter is memoised in the UNBOUNDED mode - the mode KeyCache.__call__ is under contract for (transparency, retention of
# the arguments behind id()-based keys). The bounded (LRU) mode keeps no references, so id() keys could be re-issued.
SPEC("pane.convert", "make_converter@decorators", frame=[],
     decorators=[("key_cache(_make_converter_key_f)", ["C10"])])


# ---- KeyCache.__call__, LRU mode (maxsize given), BOUNDED: every operation sequence of length <= 5 over 4 keys, maxsize 0..3 ----------
# (the linked list is a cyclic structure of aliased Python lists: outside the symbolic engine's heap model, so this mode is decided by
#  the run-time contract over an enumerated domain and is labelled bounded, never proved)
SPEC("pane.util", "KeyCache.__call__.lru.bounded", bounded=True,
     ensures=[(lambda maxsize, ops, result: [r for (r, _c, _k, _l) in result] == [('r', x) for x in ops], ["C10"], "transparent"),
              # representation invariant the next call relies on: the recency list, walked from the root, closes on the root, every link is
              # the one the table holds for its key (back pointers mirror forward ones), and it holds exactly the cached keys.
              # (WHICH keys are retained - LRU order, the size bound - is deliberately not a clause: C10 states transparency only, and a
              #  change of eviction policy must not raise an alarm)
              (lambda maxsize, ops, result: all(sorted(l) == sorted(k) and len(l) == len(set(l)) for (_r, _c, k, l) in result), ["C10"], "list-well-formed")],
     no_raise=["C10"],
     note="bounded: LRU mode of KeyCache over every operation sequence of length <= 5 on 4 keys with maxsize in {0,1,2,3} (the cyclic recency "
          "list of aliased Python lists is outside the symbolic heap model); single-threaded - interleavings are outside this technique")
