# pane/util.py

SPEC("pane.util", "flatten_union_args", trusted=True, total=True, result_kind="seq",
     note="assumed: returns the members of nested typing.Union arguments in order (recursive generator: outside the interpreted subset; "
          "exercised by the run-time contract check only)")


# ---------------------------------------------------------------------------------------------
# KeyCache.__call__, unbounded mode (the mode make_converter uses): memoisation is transparent (C10)
# ghost history: every cached entry was produced by inner_f on SOME arguments with that key
def cache_inv(self):
    return forall_val(lambda k: implies(mhas(self.cache, k), exists_val(lambda a: exists_val(lambda kw:
        callv(self.key_f, a, kw) == k and not callvraises(self.inner_f, a, kw) and mget(self.cache, k) == callv(self.inner_f, a, kw)))))


def key_determines_result(self):
    # equal keys mean interchangeable arguments (for make_converter: id(ty) identifies ty only while ty is alive, see known findings)
    return forall_val(lambda a: forall_val(lambda kw: forall_val(lambda a2: forall_val(lambda kw2: implies(
        callv(self.key_f, a, kw) == callv(self.key_f, a2, kw2),
        callv(self.inner_f, a, kw) == callv(self.inner_f, a2, kw2) and callvraises(self.inner_f, a, kw) == callvraises(self.inner_f, a2, kw2))))))


SPEC("pane.util", "KeyCache.__call__",
     shapes={"self.cache": "map", "args": "seq", "kwargs": "map", "self._missing": ""},
     mutable=["self"],
     requires=[lambda self, args, kwargs: is_none(self.maxsize),
               lambda self, args, kwargs: cache_inv(self),
               lambda self, args, kwargs: key_determines_result(self),
               lambda self, args, kwargs: forall_val(lambda k: implies(mhas(self.cache, k), mget(self.cache, k) is not self._missing))],
     assumes=[lambda self, args, kwargs: hashable(callv(self.key_f, args, kwargs))],
     note="LRU mode (maxsize given) is not under contract: not used by make_converter; thread interleavings are outside this technique",
     ensures=[(lambda self, args, kwargs, result: result == callv(self.inner_f, args, kwargs), ["C10"], "transparent"),
              (lambda self, args, kwargs, result: cache_inv(self), ["C10"], "history-invariant")],
     frame=["C10"])
