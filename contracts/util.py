# pane/util.py

SPEC("pane.util", "flatten_union_args", trusted=True, total=True, result_kind="seq",
     note="assumed: returns the members of nested typing.Union arguments in order (recursive generator: outside the interpreted subset; "
          "exercised by the run-time contract check only)")
