# C17 (inheritance and generics), bounded part: decided by run-time evaluation on a pool of class hierarchies.
# The oracle re-derives the expected field order from the RAW per-class specifications (cls.__pane_info__.specs),
# independently of _process' merge code.

def pane_bases(cls):
    return [b for b in reversed(cls.__mro__[1:]) if hasattr(b, '__pane_info__')]


def expected_field_names(cls):
    merged = {}
    for b in pane_bases(cls):
        for n in b.__pane_info__.specs:
            merged.setdefault(n, None)          # a redeclared field keeps its original position
    for n in cls.__pane_info__.specs:
        merged.setdefault(n, None)
    names = list(merged)
    kw = {f.name: f.kw_only for f in cls.__pane_info__.fields}
    return [n for n in names if not kw[n]] + [n for n in names if kw[n]]


def field_names(cls):
    return [f.name for f in cls.__pane_info__.fields]


def sig_names(cls):
    import inspect
    return [p for p in inspect.signature(cls).parameters]


SPEC("pane.classes", "_process.bounded", bounded=True,
     ensures=[(lambda cls, expect, result: field_names(cls) == expected_field_names(cls), ["C17"], "field-order"),
              (lambda cls, expect, result: sig_names(cls) == [f.name for f in cls.__pane_info__.fields if f.init], ["C17"], "signature-order"),
              (lambda cls, expect, result: all(type_equiv(expect.get("types", {}).get(f.name, f.type), f.type) for f in cls.__pane_info__.fields), ["C17"], "substituted-types"),
              (lambda cls, expect, result: all(getattr(cls.__pane_info__.opts, k) == v for k, v in expect.get("opts", {}).items()), ["C17"], "inherited-options"),
              (lambda cls, expect, result: all(ok_value(cls, v, good) for v, good in expect.get("values", [])), ["C17"], "enforced-types"),
              # positional bounds: required = positional constructor fields without a default OR a default factory; total = all of them
              (lambda cls, expect, result: tuple(cls.__pane_info__.pos_args) == expected_pos_args(cls), ["C15", "C17"], "positional-bounds")],
     no_raise=["C15", "C17", "C14"],
     note="bounded: a pool of class hierarchies (override in place, keyword-only reordering, generic binding/forwarding/re-declaration, "
          "mixins, option inheritance)")


def expected_pos_args(cls):
    from pane.field import _MISSING
    pos = [f for f in cls.__pane_info__.fields if f.init and not f.kw_only]
    required = [f for f in pos if f.default is _MISSING and f.default_factory is None]
    return (len(required), len(pos))


def ok_value(cls, v, good):
    import pane
    try:
        cls.from_data(v)
        return good
    except pane.ConvertError:
        return not good


SPEC("pane.classes", "_make_subclass.bounded", bounded=True,
     ensures=[(lambda kind, result: type_equiv(result, {"forwarded": str, "explicit-generic": str, "partially-bound": (int, str),
                                                        "swapped": (U_, T_, int, str), "grandchild": (U_, T_),
                                                        "rebound-same-var": (T_, float, int), "nested-typevar": (List[str], int),
                                                        "nested-generic": int}[kind]), ["C17"], "reparam")],
     no_raise=["C17"],
     note="bounded: three spellings of re-parameterised generic dataclasses (typing.Generic bookkeeping is outside the symbolic engine)")


def type_equiv(a, b):
    # same type expression up to the typing / builtin generic-alias spelling (typing.List[int] vs list[int])
    import typing
    if isinstance(a, tuple) and isinstance(b, tuple):
        return len(a) == len(b) and all(type_equiv(x, y) for x, y in zip(a, b))
    oa, ob = typing.get_origin(a) or a, typing.get_origin(b) or b
    aa, ab = typing.get_args(a), typing.get_args(b)
    if oa is typing.Union and ob is typing.Union:
        return len(aa) == len(ab) and all(type_equiv(x, y) for x, y in zip(aa, ab))
    return oa == ob and len(aa) == len(ab) and all(type_equiv(x, y) for x, y in zip(aa, ab))


# type-variable substitution: a homomorphism over type expressions that keeps union members IN ORDER (C11: the left-most
# accepting member wins, so the order is observable) and removes duplicates
def args_in_order(ty):
    import typing
    return list(typing.get_args(ty)) if typing.get_origin(ty) is typing.Union else [ty]


SPEC("pane.util", "replace_typevars.bounded", bounded=True,
     ensures=[(lambda ty, replacements, expect, result: type_equiv(result, expect), ["C17", "C11"], "substitution"),
              (lambda ty, replacements, expect, result: len(args_in_order(result)) == len(args_in_order(expect))
               and all(type_equiv(a, b) for a, b in zip(args_in_order(result), args_in_order(expect))),
               ["C11", "C17"], "union-order")],
     no_raise=["C17"],
     note="bounded: a table of type expressions (nested generics, unions with overlapping members, tuples, callables)")


# ---- C14 / C06, bounded: Cls(*args, **kw) == "bind, convert() each supplied argument to its field type, default the rest" ---------
def expected_construct(cls, args, kwargs):
    """('ok', {field: value}, supplied names) | ('TypeError',) | ('ConvertError',) -- derived from the signature, the field list and
    pane.convert only (not from the generated __init__)."""
    import inspect
    import pane
    from pane.field import _MISSING
    try:
        bound = inspect.signature(cls).bind(*args, **kwargs).arguments
    except TypeError:
        return ('TypeError',)
    vals = {}
    for f in cls.__pane_info__.fields:
        if not f.init:
            continue
        if f.name in bound:
            try:
                vals[f.name] = pane.convert(bound[f.name], f.type)
            except pane.ConvertError:
                return ('ConvertError',)
        elif f.default is not _MISSING:
            vals[f.name] = f.default
        else:
            vals[f.name] = f.default_factory()
    return ('ok', vals, set(bound))


SPEC("pane.classes", "construct.bounded", bounded=True,
     ensures=[(lambda cls, args, kwargs, result: result[0] == expected_construct(cls, args, kwargs)[0], ["C14", "C06"], "verdict"),
              (lambda cls, args, kwargs, result: implies(result[0] == "ok" and expected_construct(cls, args, kwargs)[0] == "ok",
                                                         all(getattr(result[1], k) == v and type(getattr(result[1], k)) is type(v)
                                                             for k, v in expected_construct(cls, args, kwargs)[1].items())), ["C14", "C06"], "converted-arguments"),
              (lambda cls, args, kwargs, result: implies(result[0] == "ok" and expected_construct(cls, args, kwargs)[0] == "ok",
                                                         getattr(result[1], "__pane_set__") == expected_construct(cls, args, kwargs)[2]), ["C14"], "set-record")],
     note="bounded: pool dataclasses x argument lists (typed objects inside containers, equal-but-differently-typed values, wrong kinds)")


# ---- C14, bounded: the data paths build what the constructor builds (same values, same set-field record, fresh defaults) ------------
SPEC("pane.classes", "data_paths.bounded", bounded=True,
     ensures=[(lambda cls, data, result: result["same_value"], ["C14", "C15"], "equals-constructor"),
              (lambda cls, data, result: result["record"] == result["expected_record"], ["C14"], "set-record"),
              (lambda cls, data, result: result["fresh_defaults"], ["C14"], "fresh-defaults")],
     note="bounded: pool dataclasses x every pool value their from_data accepts (mapping and sequence layouts, aliases, renamed keys)")
