# Sidecar contracts (parsed with ast by pvc; never executed by the verifier).
# Clause lambdas take the real function's parameter names; `result` / `exc` are the outcome.
# props=[...] on each clause says which given property the resulting obligations serve.

# ---------------------------------------------------------------------------------------------
# specification functions (taken from the property texts C01/C02 and docs/using/convert.md)

def is_data_seq(v):
    # "a string / bytes is never a sequence of elements"
    return isinstance(v, Sequence) and not isinstance(v, (str, bytes, bytearray))


def is_data_map(v):
    return isinstance(v, Mapping)


def is_error_leaf(node, expected, actual):
    return (isinstance(node, WrongTypeError) and node.expected == expected and node.actual is actual)


# ---------------------------------------------------------------------------------------------
SPEC("pane.converters", "data_is_sequence",
     total=True,
     ensures=[(lambda val, result: result == is_data_seq(val), ["C02", "C01"], "kind")],
     no_raise=["C04"])

SPEC("pane.converters", "data_is_mapping",
     total=True,
     ensures=[(lambda val, result: result == is_data_map(val), ["C02", "C01"], "kind")],
     no_raise=["C04"])

# Converter.convert: proved from the body against the interface contract IConv of `self`
SPEC("pane.converters", "Converter.convert",
     returns_iff=(lambda self, val: acc(self, val), ["C03", "C01", "C05", "C06"]),
     ensures=[(lambda self, val, result: result == out(self, val), ["C01", "C03", "C05", "C06"], "val")],
     raises=(lambda self, val, exc: exc_is(exc, ConvertError) and exc.tree == err(self, val), ["C03", "C04", "C07"]))

# ---------------------------------------------------------------------------------------------
# AnyConverter
SPEC("pane.converters", "AnyConverter.try_convert",
     returns_iff=(lambda self, val: True, ["C01", "C03", "C05", "C06"]),
     ensures=[(lambda self, val, result: result is val, ["C01", "C05", "C06"], "val")],
     raises=(lambda self, val, exc: exc_is(exc, ParseInterrupt), ["C04"]))

SPEC("pane.converters", "AnyConverter.collect_errors",
     ensures=[(lambda self, val, result: is_none(result), ["C03"], "pair")],
     no_raise=["C04"])

# ---------------------------------------------------------------------------------------------
# NoneConverter: "None only where None is allowed"
SPEC("pane.converters", "NoneConverter.try_convert",
     returns_iff=(lambda self, val: val is None, ["C01", "C02", "C03", "C05", "C06"]),
     ensures=[(lambda self, val, result: result is None, ["C01", "C05", "C06"], "val")],
     raises=(lambda self, val, exc: exc_is(exc, ParseInterrupt), ["C04"]))

SPEC("pane.converters", "NoneConverter.collect_errors",
     ensures=[(lambda self, val, result: is_none(result) == (val is None), ["C03"], "pair"),
              (lambda self, val, result: (val is None) or is_error_leaf(result, expected_of(self), val), ["C07"], "tree")],
     no_raise=["C04"])

# ---------------------------------------------------------------------------------------------
# ScalarConverter: the `allowed` kinds are the ONLY gate, then the target constructor
def ACC_Scalar(self, val):
    return isinst_dyn(val, self.allowed) and not callraises(self.ty, val)


SPEC("pane.converters", "ScalarConverter.try_convert",
     returns_iff=(lambda self, val: ACC_Scalar(self, val), ["C01", "C02", "C03", "C05", "C06"]),
     ensures=[(lambda self, val, result: result == call(self.ty, val), ["C01", "C05", "C06"], "val")],
     raises=(lambda self, val, exc: exc_is(exc, ParseInterrupt), ["C04"]))

SPEC("pane.converters", "ScalarConverter.collect_errors",
     ensures=[(lambda self, val, result: is_none(result) == ACC_Scalar(self, val), ["C03"], "pair"),
              (lambda self, val, result: ACC_Scalar(self, val) or (isinstance(result, WrongTypeError) and result.actual is val), ["C07"], "tree"),
              (lambda self, val, result: ACC_Scalar(self, val) or (is_none(result.cause) == (not isinst_dyn(val, self.allowed))), ["C08"], "cause")],
     no_raise=["C04"])

SPEC("pane.converters", "ScalarConverter.into_data",
     ensures=[(lambda self, val, result: result == call(self._into_data_f, val), ["C05", "C06"], "ser")])

# ---------------------------------------------------------------------------------------------
# pure string helpers used only to build `expected` texts: assumed total (strings are not interpreted here)
SPEC("pane.util", "list_phrase", trusted=True, total=True, result_kind="str", result_opaque=True,
     note="assumed: total, pure, returns a str (string formatting helper)")
SPEC("pane.util", "pluralize", trusted=True, total=True, result_kind="str", result_opaque=True,
     note="assumed: total, pure, returns a str (string formatting helper)")
SPEC("pane.util", "remove_article", trusted=True, total=True, result_kind="str", result_opaque=True,
     note="assumed: total, pure, returns a str (string formatting helper)")
