# DatetimeConverter (pane/converters.py): the table in the source comment, proved for both passes
#                input:   date      datetime   time    str
#   output  date          id        .date()    error   parse
#           datetime      combine   id         error   parse
#           time          error     .timetz()? id      parse          (the code uses .time())

DT_SHAPES = {"self.super_ty": "", "self.ty": ""}


def wf_Datetime(self):
    return self.super_ty is clsref("datetime") or self.super_ty is clsref("date") or self.super_ty is clsref("time")


def ACC_Datetime(self, val):
    return ite(isinstance(val, str), not methraises("fromisoformat", self.ty, val),
               ite(isinstance(val, clsref("datetime")), True,
                   ite(isinstance(val, clsref("time")), self.super_ty is clsref("time"),
                       ite(isinstance(val, clsref("date")), self.super_ty is not clsref("time"), False))))


SPEC("pane.converters", "DatetimeConverter.from_datetime", shapes=DT_SHAPES,
     requires=[lambda self, dt: wf_Datetime(self), lambda self, dt: isinstance(dt, clsref("datetime"))],
     total=True, note="assumed: datetime.time()/.date()/datetime.combine do not raise on datetime/date instances (stdlib)",
     ensures=[(lambda self, dt, result: result == ite(self.super_ty is clsref("datetime"), dt,
                                                      ite(self.super_ty is clsref("time"), methcall("time", dt), methcall("date", dt))), ["C01", "C06"], "val")])

SPEC("pane.converters", "DatetimeConverter.from_date", shapes=DT_SHAPES,
     requires=[lambda self, dt: wf_Datetime(self), lambda self, dt: self.super_ty is not clsref("time"), lambda self, dt: isinstance(dt, clsref("date"))],
     total=True, note="assumed: datetime.time()/.date()/datetime.combine do not raise on datetime/date instances (stdlib)",
     ensures=[(lambda self, dt, result: implies(self.super_ty is clsref("date"), result is dt), ["C01", "C06"], "val")])

SPEC("pane.converters", "DatetimeConverter.try_convert", shapes=DT_SHAPES,
     requires=lambda self, val: wf_Datetime(self),
     returns_iff=(lambda self, val: ACC_Datetime(self, val), ["C01", "C02", "C03", "C05", "C06"]),
     ensures=[(lambda self, val, result: implies(isinstance(val, str), result == methcall("fromisoformat", self.ty, val)), ["C01", "C05", "C06"], "val"),
              (lambda self, val, result: implies(not isinstance(val, str) and isinstance(val, clsref("time")) and not isinstance(val, clsref("datetime")), result is val),
               ["C01", "C06"], "val")],
     raises=(lambda self, val, exc: exc_is(exc, ParseInterrupt), ["C04"]))

SPEC("pane.converters", "DatetimeConverter.collect_errors", shapes=DT_SHAPES,
     requires=lambda self, val: wf_Datetime(self),
     ensures=[(lambda self, val, result: is_none(result) == ACC_Datetime(self, val), ["C03"], "pair"),
              (lambda self, val, result: ACC_Datetime(self, val) or (isinstance(result, WrongTypeError) and result.actual is val), ["C07"], "tree")],
     no_raise=["C04"])

SPEC("pane.converters", "DatetimeConverter.into_data",
     ensures=[(lambda self, val, result: implies((isinstance(val, clsref("time")) or isinstance(val, clsref("date"))), result == methcall("isoformat", val)), ["C05", "C06"], "ser")])

# the constructor establishes the well-formedness the passes rely on, or refuses the type
SPEC("pane.converters", "DatetimeConverter.__init__", mutable=["self"],
     ensures=[(lambda self, ty: wf_Datetime(self) and self.ty is ty, ["C01"], "wf"),
              (lambda self, ty: implies(ty is clsref("datetime") or ty is clsref("date") or ty is clsref("time"), self.super_ty is ty), ["C01"], "exact")],
     raises=(lambda self, ty, exc: exc_is(exc, TypeError), ["C04"]))
