# ---------------------------------------------------------------------------------------------
# make_converter: the type-directed dispatch (C01 which converter, C18 precedence and handler threading, C11 unions)
def mc_base(ty):
    return ite(truthy(get_origin(ty)), get_origin(ty), ty)


def mc_is_special_value(ty):
    # rules decided on the VALUE ty before it is split into origin and arguments
    return (ty is ANY or ty is typeof(ANY) or isinstance(ty, TypeVar) or isinstance(ty, (dict, Mapping)) or isinstance(ty, tuple)
            or isinstance(ty, ForwardRef) or isinstance(ty, str))


def mc_is_special_form(ty):
    return mc_base(ty) is ANNOTATED or is_union_origin(mc_base(ty)) or mc_base(ty) is LITERAL


def handler_at(handlers, j):
    # call-level handlers first, then class-local ones (own class before enclosing classes, see PaneConverter.__init__)
    return ite(j < slen(handlers.globals), sat(handlers.globals, j), sat(handlers.class_local, j - slen(handlers.globals)))


def n_handlers(handlers):
    return slen(handlers.globals) + slen(handlers.class_local)


def h_defers(h, base, args, hs):
    # a handler defers by answering NotImplemented or raising NotImplementedError
    return (callraises_as("NotImplementedError", h, base, args, handlers=hs)
            or ((not callraises(h, base, args, handlers=hs)) and call(h, base, args, handlers=hs) is NotImplementedV))


def h_answers(h, base, args, hs):
    return (not callraises(h, base, args, handlers=hs)) and (call(h, base, args, handlers=hs) is not NotImplementedV)


def no_local_handler_answers(ty, handlers):
    return forall(range(n_handlers(handlers)), lambda j: h_defers(handler_at(handlers, j), mc_base(ty), get_args(ty), ConverterHandlers()))


def no_global_handler_answers(ty, handlers):
    return forall(range(slen(GLOBAL_HANDLERS)), lambda j: h_defers(sat(GLOBAL_HANDLERS, j), mc_base(ty), get_args(ty), handlers))


def mget_or(m, k):
    # _ABSTRACT_MAPPING.get(base, base)
    return ite(mhas(m, k), mget(m, k), k)


def mc_past_builtins(ty, handlers):
    # reached the structural built-ins: nothing earlier claimed the type
    return (not mc_is_special_value(ty) and not mc_is_special_form(ty) and isinstance(mc_base(ty), type)
            and no_local_handler_answers(ty, handlers) and not issub(mc_base(ty), clsref("HasConverter"))
            and not mhas(BASIC_CONVERTERS, mc_base(ty)) and not mhas(BASIC_WITH_ARGS, mc_base(ty))
            and no_global_handler_answers(ty, handlers))


# a union type, however spelled: typing.Union[X, Y] or X | Y (PEP 604, origin types.UnionType where that exists)
def is_union_origin(b):
    return b is UNION or b is getattr(clsref_dotted("types"), "UnionType", UNION)


# str / bytes / bytearray and their subclasses are SCALARS (C02: never a sequence of elements), although they are abc.Sequence
def is_text_type(b):
    return issub(b, str) or issub(b, bytes) or issub(b, bytearray)


SPEC("pane.convert", "make_converter",
     shapes={"handlers": "rec:ConverterHandlers", ".globals": "seq", ".class_local": "seq", "args": "seq",
             "$_BASIC_CONVERTERS": "map", "$_BASIC_WITH_ARGS": "map", "$_GLOBAL_HANDLERS": "seq", "$_ABSTRACT_MAPPING": "map",
             ".__constraints__": "seq"},
     result_kind="conv", slices=16,
     ensures=[
         (lambda ty, handlers, result: implies(ty is ANY or ty is typeof(ANY), result == AnyConverter()), ["C01"], "any"),
         # struct / tuple type literals: children built with the SAME handlers
         (lambda ty, handlers, result: implies(not (ty is ANY or ty is typeof(ANY)) and not isinstance(ty, TypeVar) and isinstance(ty, (dict, Mapping)),
                                               result == StructConverter(typeof(ty), ty, handlers=handlers)), ["C01", "C18"], "struct-literal"),
         (lambda ty, handlers, result: implies(not (ty is ANY or ty is typeof(ANY)) and not isinstance(ty, TypeVar) and not isinstance(ty, (dict, Mapping))
                                               and isinstance(ty, tuple),
                                               result == TupleConverter(typeof(ty), ty, handlers=handlers)), ["C01", "C18"], "tuple-literal"),
         # special forms come before any handler: Annotated, Union (members get the handlers), Literal
         (lambda ty, handlers, result: implies(not mc_is_special_value(ty) and mc_base(ty) is ANNOTATED,
                                               result == ret("pane.convert:_annotated_converter", sat(get_args(ty), 0), get_args(ty)[1:], handlers)),
          ["C01", "C13", "C12"], "annotated"),
         (lambda ty, handlers, result: implies(not mc_is_special_value(ty) and is_union_origin(mc_base(ty)) and mc_base(ty) is not ANNOTATED,
                                               result == UnionConverter(get_args(ty), handlers=handlers)), ["C01", "C11", "C18"], "union"),
         (lambda ty, handlers, result: implies(not mc_is_special_value(ty) and mc_base(ty) is LITERAL and not is_union_origin(mc_base(ty))
                                               and mc_base(ty) is not ANNOTATED,
                                               result == LiteralConverter(get_args(ty))), ["C01"], "literal"),
         # call-level and class-local handlers, in order; the first that answers wins, one that defers is skipped
         (lambda ty, handlers, result: implies(
             not mc_is_special_value(ty) and not mc_is_special_form(ty) and isinstance(mc_base(ty), type)
             and not no_local_handler_answers(ty, handlers),
             exists(range(n_handlers(handlers)), lambda k: h_answers(handler_at(handlers, k), mc_base(ty), get_args(ty), ConverterHandlers())
                    and forall(range(k), lambda j: h_defers(handler_at(handlers, j), mc_base(ty), get_args(ty), ConverterHandlers()))
                    and result == call(handler_at(handlers, k), mc_base(ty), get_args(ty), handlers=ConverterHandlers()))), ["C18"], "local-handlers"),
         # then the scalar table, BEFORE registered global handlers
         (lambda ty, handlers, result: implies(
             not mc_is_special_value(ty) and not mc_is_special_form(ty) and isinstance(mc_base(ty), type)
             and no_local_handler_answers(ty, handlers) and not issub(mc_base(ty), clsref("HasConverter"))
             and mhas(BASIC_CONVERTERS, mc_base(ty)), result == mget(BASIC_CONVERTERS, mc_base(ty))), ["C18", "C01"], "scalar-table"),
         # registered global handlers are consulted after the scalar built-ins but before the structural ones
         (lambda ty, handlers, result: implies(
             not mc_is_special_value(ty) and not mc_is_special_form(ty) and isinstance(mc_base(ty), type)
             and no_local_handler_answers(ty, handlers) and not issub(mc_base(ty), clsref("HasConverter"))
             and not mhas(BASIC_CONVERTERS, mc_base(ty)) and not mhas(BASIC_WITH_ARGS, mc_base(ty))
             and not no_global_handler_answers(ty, handlers),
             exists(range(slen(GLOBAL_HANDLERS)), lambda k: h_answers(sat(GLOBAL_HANDLERS, k), mc_base(ty), get_args(ty), handlers)
                    and forall(range(k), lambda j: h_defers(sat(GLOBAL_HANDLERS, j), mc_base(ty), get_args(ty), handlers))
                    and result == call(sat(GLOBAL_HANDLERS, k), mc_base(ty), get_args(ty), handlers=handlers))), ["C18"], "global-handlers"),
         # structural built-ins, each threading the handlers to its children
         (lambda ty, handlers, result: implies(mc_past_builtins(ty, handlers) and issub(mc_base(ty), Enum),
                                               result == EnumConverter(mc_base(ty), handlers=handlers)), ["C01", "C18"], "enum"),
         (lambda ty, handlers, result: implies(mc_past_builtins(ty, handlers) and not issub(mc_base(ty), Enum) and issub(mc_base(ty), PathLike)
                                               and not isabstract(mget_or(ABSTRACT_MAPPING, mc_base(ty))),
                                               result == ScalarConverter(mget_or(ABSTRACT_MAPPING, mc_base(ty)), (str, PathLike), "a path", "paths", str)),
          ["C01"], "path"),
         # fixed-length tuples: Tuple[A, B] (no trailing ellipsis) and the empty Tuple[()]
         (lambda ty, handlers, result: implies(
             mc_past_builtins(ty, handlers) and not issub(mc_base(ty), Enum) and not issub(mc_base(ty), PathLike) and issub(mc_base(ty), tuple)
             and slen(get_args(ty)) > 0 and sat(get_args(ty), slen(get_args(ty)) - 1) != ELLIPSIS and get_args(ty) != ((),),
             result == TupleConverter(mc_base(ty), get_args(ty), handlers=handlers)), ["C01", "C18"], "tuple"),
         # homogeneous sequences and sets: abstract types mapped to a concrete container, element type defaulting to Any
         (lambda ty, handlers, result: implies(
             mc_past_builtins(ty, handlers) and not issub(mc_base(ty), Enum) and not issub(mc_base(ty), PathLike) and not issub(mc_base(ty), tuple)
             and (issub(mc_base(ty), Sequence) or issub(mc_base(ty), Set)) and not is_text_type(mc_base(ty))
             and not isabstract(mget_or(ABSTRACT_MAPPING, mc_base(ty))),
             result == SequenceConverter(mget_or(ABSTRACT_MAPPING, mc_base(ty)),
                                         ite(slen(get_args(ty)) > 0, sat(get_args(ty), 0), ANY), handlers=handlers)), ["C01", "C18"], "sequence"),
         # subclasses of the scalar built-ins are delegated to the FIRST matching row of the table
         (lambda ty, handlers, result: implies(
             mc_past_builtins(ty, handlers) and not issub(mc_base(ty), Enum) and not issub(mc_base(ty), PathLike) and not issub(mc_base(ty), tuple)
             and ((not issub(mc_base(ty), Sequence) and not issub(mc_base(ty), Set)) or is_text_type(mc_base(ty)))
             and not issub(mc_base(ty), dict) and not issub(mc_base(ty), Mapping),
             exists(range(mlen(BASIC_CONVERTERS)), lambda k: issub(mc_base(ty), key_at(BASIC_CONVERTERS, k))
                    and forall(range(k), lambda j: not issub(mc_base(ty), key_at(BASIC_CONVERTERS, j)))
                    and result == DelegateConverter(key_at(BASIC_CONVERTERS, k), mc_base(ty), handlers=handlers))), ["C01", "C18"], "delegate"),
     ],
     invariants={
         0: lambda it, handlers, base, args: forall(range(it), lambda j: h_defers(handler_at(handlers, j), base, args, ConverterHandlers())),
         1: lambda it, handlers, base, args: forall(range(it), lambda j: h_defers(sat(GLOBAL_HANDLERS, j), base, args, handlers)),
         2: lambda it, base: forall(range(it), lambda j: not issub(base, key_at(BASIC_CONVERTERS, j))),
     },
     raises=(lambda ty, handlers, exc: exc_is(exc, TypeError) or exc_is(exc, UnsupportedAnnotation), ["C04"]),
     raises_assumed=True,
     note="exceptional postcondition (only TypeError / UnsupportedAnnotation) ASSUMED for callers: it rests on converter constructors, "
          "HasConverter._converter implementations and custom handlers raising nothing else (handlers may raise NotImplementedError to defer)")
