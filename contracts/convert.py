# pane/convert.py: the public entry points and handler normalisation

def is_scalar_data(v):
    # interchange scalars (C05: "interchange scalars map to themselves, so a bool stays a bool")
    return isinstance(v, (str, bytes, int, bool, float, complex, NoneType))


def is_data(v):
    return is_scalar_data(v) or isinstance(v, Mapping) or isinstance(v, Sequence) or isinstance(v, ndarray)


def handlers_of(custom):
    return ret("pane.convert:ConverterHandlers.make", clsref("ConverterHandlers"), custom)


SPEC("pane.convert", "ConverterHandlers.make", trusted=True, total=True, result_kind="rec",
     note="assumed here, contracted below through _process: deterministic normalisation of the `custom` argument")

SPEC("pane.convert", "into_data",
     ensures=[(lambda val, ty, custom, result: implies(is_none(ty) and is_scalar_data(val) and is_none(custom), result is val), ["C05", "C06"], "scalar-identity"),
              (lambda val, ty, custom, result: implies(not (is_none(ty) and is_scalar_data(val) and is_none(custom)),
                                                       result == ser(mkconv(ite(is_none(ty), typeof(val), ty), handlers_of(custom)), val)), ["C05", "C06", "C18"], "ser")],
     raises=(lambda val, ty, custom, exc: exc_is(exc, TypeError) or exc_is(exc, UnsupportedAnnotation), ["C05"]))

SPEC("pane.convert", "from_data",
     returns_iff=(lambda val, ty, custom: acc(mkconv(ty, handlers_of(custom)), val), ["C01", "C03", "C05", "C06"]),
     ensures=[(lambda val, ty, custom, result: result == out(mkconv(ty, handlers_of(custom)), val), ["C01", "C18", "C05", "C06"], "val")],
     raises=(lambda val, ty, custom, exc: (exc_is(exc, ConvertError) and exc.tree == err(mkconv(ty, handlers_of(custom)), val))
             or exc_is(exc, TypeError) or exc_is(exc, UnsupportedAnnotation), ["C04", "C03"]))

SPEC("pane.convert", "convert",
     ensures=[(lambda val, ty, custom, result: result == ret("pane.convert:from_data", ret("pane.convert:into_data", val, None, custom), ty, custom), ["C06"], "compose")])


# ---------------------------------------------------------------------------------------------
# handler normalisation (C18): callable -> 1-tuple, sequence -> tuple, mapping -> ONE handler that matches only the
# exact unparameterised type and otherwise answers NotImplemented
def handler_call(h, ty, args, hs):
    return call(h, ty, args, handlers=hs)


SPEC("pane.convert", "ConverterHandlers._process",
     shapes={"handlers": "map", "conv_map": "map", "args": "seq"},
     ensures=[(lambda handlers, result: not is_none(result) and isinstance(result, tuple), ["C18"], "tuple"),
              (lambda handlers, result: implies(is_none(handlers), slen(result) == 0), ["C18"], "none"),
              (lambda handlers, result: implies(isinstance(handlers, dict),
                                                slen(result) == 1 and forall_val(lambda ty: forall_val(lambda args: forall_val(lambda hs: implies(
                                                    hashable(ty) and has_attr(args, "__len__"),
                                                    handler_call(sat(result, 0), ty, args, hs) ==
                                                    ite(mhas(handlers, ty) and slen(args) == 0, mget(handlers, ty), NotImplementedV)
                                                    and not callraises(sat(result, 0), ty, args, handlers=hs)))))), ["C18"], "mapping-form"),
              (lambda handlers, result: implies(not is_none(handlers) and not isinstance(handlers, dict) and not isinstance(handlers, Sequence),
                                                slen(result) == 1 and sat(result, 0) is handlers), ["C18"], "callable-form"),
              # a mapping is wrapped in a NEW plain function on every call: function objects compare by identity, so two normalisations
              # of a (possibly since modified) mapping never share a memoised converter (C10: handler sets are cache-key components)
              (lambda handlers, result: implies(isinstance(handlers, dict), isinstance(sat(result, 0), function)), ["C10"], "mapping-wrapper-identity")],
     no_raise=["C18"])

SPEC("pane.convert", "_make_converter_key_f",
     ensures=[(lambda ty, handlers, result: slen(result) == 2 and sat(result, 0) == id_of(ty) and sat(result, 1) is handlers, ["C10", "C18"], "key")],
     no_raise=["C10"])


# ConverterHandlers is a frozen dataclass: equality and hash are field-wise (they are cache-key components, C10). If somebody
# writes them by hand they must still distinguish call-level from class-local handlers.
SPEC("pane.convert", "ConverterHandlers.__eq__", optional=True,
     shapes={"self": "rec:ConverterHandlers", "other": "rec:ConverterHandlers", ".globals": "seq", ".class_local": "seq"},
     ensures=[(lambda self, other, result: implies(isinstance(other, ConverterHandlers),
                                                   truthy(result) == (self.globals == other.globals and self.class_local == other.class_local)), ["C10", "C18"], "fieldwise")])
