# PaneConverter (pane/classes.py): dataclass data layouts, the struct decision table, the tuple bounds.
# Spec taken from C15 / C02 / C03 / C07 / C14 and docs/using/dataclasses.md.

PANE_SHAPES = {
    "self.fields": "seq", "self.fields[]": "rec:Field", "self.field_converters": "seq", "self.field_map": "map",
    "self.field_map[]": "int", "self.opts.in_format": "seq", "self.cls_info.pos_args": "seq",
    "min_len": "int", "max_len": "int", ".name": "str", ".in_names": "seq", ".out_name": "str",
    "field": "rec:Field", "f": "rec:Field",
}
STRUCT_SHAPES = dict(PANE_SHAPES, **{"val": "map", "field.default_factory": "total", "self.cls.from_dict_unchecked": "ghostcall:struct_hook_fast",
                                     "self.cls.make_unchecked": "ghostcall:struct_hook_diag"})
TUPLE_SHAPES = dict(PANE_SHAPES, **{"val": "seq", "self.cls.make_unchecked": "ghostcall:tuple_hook"})


def fm_index(self, k):
    return int_key(mget(self.field_map, k))


def n_init(self):
    return count_where(zlen(slen(self.fields), slen(self.field_converters)), lambda i: sat(self.fields, i).init)


def init_pos(self, j):
    # index (into self.fields) of the j-th field that takes part in construction
    return nth_where(zlen(slen(self.fields), slen(self.field_converters)), lambda i: sat(self.fields, i).init, j)


def pos_min(self):
    return int_key(sat(self.cls_info.pos_args, 0))


def pos_max(self):
    return int_key(sat(self.cls_info.pos_args, 1))


def wf_Pane(self):
    # class invariant established by PaneConverter.__init__ and _process (see their own contracts)
    return (slen(self.field_converters) == slen(self.fields)
            and forall_val(lambda k: implies(mhas(self.field_map, k),
                                             hashable(k) and is_int_key(mget(self.field_map, k)) and 0 <= fm_index(self, k)
                                             and fm_index(self, k) < slen(self.fields)
                                             and truthy(sat(self.fields, fm_index(self, k)).init)))
            and forall(range(slen(self.fields)), lambda i: forall(range(slen(self.fields)), lambda j:
                       implies(sat(self.fields, i).name == sat(self.fields, j).name, i == j)))
            and forall(range(slen(self.fields)), lambda i: isinstance(sat(self.fields, i).name, str))
            and slen(self.cls_info.pos_args) == 2
            and 0 <= pos_min(self) and pos_min(self) <= pos_max(self) and pos_max(self) <= n_init(self))


def has_default_spec(f):
    return (f.default is not MISSING) or (f.default_factory is not None)


def bound_by(self, val, i, upto):
    # some key among the first `upto` keys of val names field i
    return exists(range(upto), lambda j: mhas(self.field_map, key_at(val, j)) and fm_index(self, key_at(val, j)) == i)


# ---------------------------------------------------------------------------------------------
# struct layout: the decision table of C15
def struct_table(self, val):
    return (
        # unknown keys rejected unless extras are allowed
        (truthy(self.opts.allow_extra) or forall_val(lambda k: implies(mhas(val, k), mhas(self.field_map, k))))
        # two keys naming the same field are rejected
        and forall_val(lambda k1: forall_val(lambda k2: implies(
            mhas(val, k1) and mhas(val, k2) and mhas(self.field_map, k1) and mhas(self.field_map, k2)
            and fm_index(self, k1) == fm_index(self, k2), k1 == k2)))
        # every bound value is accepted by its field's converter
        and forall_val(lambda k: implies(mhas(val, k) and mhas(self.field_map, k),
                                         acc(sat(self.field_converters, fm_index(self, k)), mget(val, k))))
        # required fields are present
        and forall(range(slen(self.fields)), lambda i: implies(
            truthy(sat(self.fields, i).init) and not has_default_spec(sat(self.fields, i)),
            bound_by(self, val, i, mlen(val)))))


def ACC_PaneStruct(self, val):
    return struct_table_diag(self, val) and not ghost("struct_hook_fast", self, val)


def keys_ok_upto(self, val, n):
    # what the key loop has established about the first n keys of val
    return (forall(range(n), lambda j: mhas(self.field_map, key_at(val, j)) or truthy(self.opts.allow_extra))
            and forall(range(n), lambda j: implies(mhas(self.field_map, key_at(val, j)),
                                                   acc(sat(self.field_converters, fm_index(self, key_at(val, j))), mget(val, key_at(val, j)))))
            and forall(range(n), lambda j: forall(range(j), lambda j2: implies(
                mhas(self.field_map, key_at(val, j)) and mhas(self.field_map, key_at(val, j2)),
                fm_index(self, key_at(val, j)) != fm_index(self, key_at(val, j2))))))


def default_value(f):
    # the field's default, or a FRESH PRODUCT of its default factory - never the factory itself (C14)
    return ite(f.default is not MISSING, f.default, call(f.default_factory))


def bound_values_ok(self, val, values, n):
    # every one of the first n keys that names a field has put its converted value under the field's Python name
    return forall(range(n), lambda j: implies(
        mhas(self.field_map, key_at(val, j)),
        mget(values, sat(self.fields, fm_index(self, key_at(val, j))).name)
        == out(sat(self.field_converters, fm_index(self, key_at(val, j))), mget(val, key_at(val, j)))))


SPEC("pane.classes", "PaneConverter.try_convert_struct",
     shapes=STRUCT_SHAPES,
     requires=[lambda self, val: wf_Pane(self), lambda self, val: is_data_map(val)],
     returns_iff=(lambda self, val: ACC_PaneStruct(self, val), ["C15", "C01", "C02", "C03", "C14", "C05", "C06"]),
     note="default factories are assumed not to raise",
     ensures=[
         # the instance is built from: converted values of the bound fields, defaults (fresh factory products) for the
         # others, and the set-field record is exactly the bound fields (C14)
         (lambda self, val, result: exists_val(lambda D: exists_val(lambda S:
             result == call(self.cls.from_dict_unchecked, D, set_fields=S)
             and bound_values_ok(self, val, as_map(D), mlen(val))
             and forall(range(slen(self.fields)), lambda i: implies(
                 truthy(sat(self.fields, i).init) and not bound_by(self, val, i, mlen(val)),
                 mhas(as_map(D), sat(self.fields, i).name)
                 and mget(as_map(D), sat(self.fields, i).name) == default_value(sat(self.fields, i))))
             and forall(range(slen(self.fields)), lambda i: shas(as_set(S), sat(self.fields, i).name) == bound_by(self, val, i, mlen(val))))),
          ["C14", "C01", "C05", "C06"], "val")],
     raises=(lambda self, val, exc: exc_is(exc, ParseInterrupt), ["C04", "C14"]),
     invariants={
         0: lambda it, values, self, val:
         keys_ok_upto(self, val, it)
         and forall(range(slen(self.fields)), lambda i: mhas(values, sat(self.fields, i).name) == bound_by(self, val, i, it))
         and bound_values_ok(self, val, values, it),
         1: lambda it, values, set_fields, self, val:
         forall(range(it), lambda i: implies(truthy(sat(self.fields, i).init) and not has_default_spec(sat(self.fields, i)),
                                             bound_by(self, val, i, mlen(val))))
         and keys_ok_upto(self, val, mlen(val))
         and forall(range(it, slen(self.fields)), lambda i: mhas(values, sat(self.fields, i).name) == bound_by(self, val, i, mlen(val)))
         and bound_values_ok(self, val, values, mlen(val))
         and forall(range(it), lambda i: implies(
             truthy(sat(self.fields, i).init) and not bound_by(self, val, i, mlen(val)),
             mhas(values, sat(self.fields, i).name) and mget(values, sat(self.fields, i).name) == default_value(sat(self.fields, i))))
         and forall(range(slen(self.fields)), lambda i: shas(set_fields, sat(self.fields, i).name) == bound_by(self, val, i, mlen(val))),
     })


# ---------------------------------------------------------------------------------------------
# tuple layout: positional binding to the constructor fields, length between required and total positional count
def ACC_PaneTuple(self, val):
    return (pos_min(self) <= slen(val) and slen(val) <= pos_max(self)
            and forall(range(slen(val)), lambda j: acc(sat(self.field_converters, init_pos(self, j)), sat(val, j)))
            and not ghost("tuple_hook", self, val))


SPEC("pane.classes", "PaneConverter.try_convert_tuple",
     shapes=TUPLE_SHAPES,
     requires=[lambda self, val: wf_Pane(self), lambda self, val: is_data_seq(val)],
     returns_iff=(lambda self, val: ACC_PaneTuple(self, val), ["C15", "C01", "C03", "C02", "C05", "C06"]),
     raises=(lambda self, val, exc: exc_is(exc, ParseInterrupt), ["C04", "C14"]),
     invariants={0: lambda it, vals, self, val: slen(vals) == it and
                 forall(range(it), lambda j: acc(sat(self.field_converters, init_pos(self, j)), sat(val, j))
                        and sat(vals, j) == out(sat(self.field_converters, init_pos(self, j)), sat(val, j)))})

SPEC("pane.classes", "PaneConverter.collect_errors_tuple",
     shapes=TUPLE_SHAPES,
     requires=[lambda self, val: wf_Pane(self), lambda self, val: is_data_seq(val)],
     ensures=[(lambda self, val, result: is_none(result) == ACC_PaneTuple(self, val), ["C03", "C15"], "pair"),
              (lambda self, val, result: (pos_min(self) <= slen(val) and slen(val) <= pos_max(self)) or
               (isinstance(result, WrongLenError) and result.actual is val), ["C07", "C15"], "tree"),
              (lambda self, val, result: (not (pos_min(self) <= slen(val) and slen(val) <= pos_max(self)))
               or forall(range(slen(val)), lambda j: acc(sat(self.field_converters, init_pos(self, j)), sat(val, j))) or
               (isinstance(result, ProductErrorNode) and result.actual is val
                and int_children(result.children, slen(val))
                and forall(range(slen(val)), lambda j: mhas(result.children, j) ==
                           (not acc(sat(self.field_converters, init_pos(self, j)), sat(val, j))))
                and forall(range(slen(val)), lambda j: implies(
                    mhas(result.children, j),
                    mget(result.children, j) == err(sat(self.field_converters, init_pos(self, j)), sat(val, j))))),
               ["C07", "C15"], "tree")],
     no_raise=["C04"],
     invariants={0: lambda it, vals, children, self, val:
                 int_children(children, it)
                 and forall(range(it), lambda j: mhas(children, j) == (not acc(sat(self.field_converters, init_pos(self, j)), sat(val, j))))
                 and forall(range(it), lambda j: implies(
                     mhas(children, j), mget(children, j) == err(sat(self.field_converters, init_pos(self, j)), sat(val, j))))})

# ---------------------------------------------------------------------------------------------
# layout gate (C15, C02): a REAL sequence (not str/bytes) -> tuple layout if enabled; a mapping -> struct layout if enabled
def ACC_Pane(self, val):
    return ((is_data_seq(val) and ("tuple" in self.opts.in_format) and ACC_PaneTuple(self, val))
            or (is_data_map(val) and ("struct" in self.opts.in_format) and ACC_PaneStruct(self, val)))


SPEC("pane.classes", "PaneConverter.try_convert",
     shapes=PANE_SHAPES,
     requires=lambda self, val: wf_Pane(self),
     returns_iff=(lambda self, val: ACC_Pane(self, val), ["C15", "C02", "C01", "C03", "C05", "C06"]),
     raises=(lambda self, val, exc: exc_is(exc, ParseInterrupt), ["C04"]))


# ---------------------------------------------------------------------------------------------
# diagnostic pass, struct layout (C03 pair, C07 tree, C15 decision table)
def dup_key(self, val, k):
    # k names a field that an EARLIER key of val already named
    return exists(range(idx_of(val, k)), lambda j2: mhas(self.field_map, key_at(val, j2))
                  and fm_index(self, key_at(val, j2)) == fm_index(self, k))


def first_key(self, val, k):
    return mhas(val, k) and mhas(self.field_map, k) and not dup_key(self, val, k)


def struct_child_expected(self, val, k):
    # k is reported as a child of the product node: a duplicate, or a first key whose value is rejected on its own
    return (mhas(val, k) and mhas(self.field_map, k) and
            (dup_key(self, val, k) or not acc(sat(self.field_converters, fm_index(self, k)), mget(val, k))))


def required_missing(self, val, i):
    return (truthy(sat(self.fields, i).init) and not has_default_spec(sat(self.fields, i))
            and not bound_by(self, val, i, mlen(val)))


def struct_table_diag(self, val):
    # same decision table, phrased over first keys (the diagnostic pass skips duplicates before converting)
    return ((truthy(self.opts.allow_extra) or forall_val(lambda k: implies(mhas(val, k), mhas(self.field_map, k))))
            and forall_val(lambda k: not struct_child_expected(self, val, k))
            and forall(range(slen(self.fields)), lambda i: not required_missing(self, val, i)))


SPEC("pane.classes", "PaneConverter.collect_errors_struct",
     shapes=STRUCT_SHAPES,
     requires=[lambda self, val: wf_Pane(self), lambda self, val: is_data_map(val)],
     assumes=[lambda self, val: ghost("struct_hook_diag", self, val) == ghost("struct_hook_fast", self, val)],
     note="assumed: the two construction paths (from_dict_unchecked in the fast pass, make_unchecked(**values) in the diagnostic pass) agree on whether __post_init__ fails for the same bound values",
     ensures=[(lambda self, val, result: is_none(result) == (struct_table_diag(self, val) and not ghost("struct_hook_diag", self, val)),
               ["C03", "C15"], "pair"),
              (lambda self, val, result: struct_table_diag(self, val) or
               (isinstance(result, ProductErrorNode) and result.actual is val
                and forall_val(lambda k: mhas(result.children, k) == struct_child_expected(self, val, k))
                and forall_val(lambda k: implies(mhas(result.children, k) and not dup_key(self, val, k),
                                                 mget(result.children, k) == err(sat(self.field_converters, fm_index(self, k)), mget(val, k))))
                and forall_val(lambda k: implies(mhas(result.children, k) and dup_key(self, val, k),
                                                 isinstance(mget(result.children, k), DuplicateKeyError)))
                and forall_val(lambda k: shas(result.extra, k) == (mhas(val, k) and not mhas(self.field_map, k)
                                                                   and not truthy(self.opts.allow_extra)))
                and forall(range(slen(self.fields)), lambda i: shas(result.missing, sat(self.fields, i).name) == required_missing(self, val, i))
                and forall_val(lambda n: implies(shas(result.missing, n),
                                                 exists(range(slen(self.fields)), lambda i: sat(self.fields, i).name == n)))),
               ["C07", "C15", "C08"], "tree")],
     no_raise=["C04", "C14"],
     invariants={
         0: lambda it, values, children, extra, seen, self, val:
         forall_val(lambda k: mhas(children, k) == (idx_of(val, k) < it and struct_child_expected(self, val, k)))
         and forall_val(lambda k: implies(mhas(children, k) and not dup_key(self, val, k),
                                          mget(children, k) == err(sat(self.field_converters, fm_index(self, k)), mget(val, k))))
         and forall_val(lambda k: implies(mhas(children, k) and dup_key(self, val, k), isinstance(mget(children, k), DuplicateKeyError)))
         and forall_val(lambda k: shas(extra, k) == (mhas(val, k) and idx_of(val, k) < it and not mhas(self.field_map, k)
                                                     and not truthy(self.opts.allow_extra)))
         and forall(range(slen(self.fields)), lambda i: shas(seen, sat(self.fields, i).name) == bound_by(self, val, i, it)),
         1: lambda it, missing, children, extra, seen, self, val:
         forall(range(slen(self.fields)), lambda i: shas(missing, sat(self.fields, i).name) == (i < it and required_missing(self, val, i)))
         and forall_val(lambda n: implies(shas(missing, n), exists(range(slen(self.fields)), lambda i: sat(self.fields, i).name == n)))
         and forall(range(slen(self.fields)), lambda i: shas(seen, sat(self.fields, i).name) == bound_by(self, val, i, mlen(val))),
     })

SPEC("pane.classes", "PaneConverter.collect_errors",
     shapes=PANE_SHAPES,
     requires=lambda self, val: wf_Pane(self),
     ensures=[(lambda self, val, result: is_none(result) ==
               ((is_data_seq(val) and ("tuple" in self.opts.in_format) and ACC_PaneTuple(self, val))
                or (is_data_map(val) and ("struct" in self.opts.in_format) and struct_table_diag(self, val)
                    and not ghost("struct_hook_diag", self, val))), ["C03", "C15", "C02"], "pair"),
              (lambda self, val, result: is_data_seq(val) or is_data_map(val) or is_error_leaf_any(result, val), ["C07"], "tree")],
     no_raise=["C04"])


def is_error_leaf_any(node, actual):
    return isinstance(node, WrongTypeError) and node.actual is actual


# ---------------------------------------------------------------------------------------------
# output (C15, C05): configured layout, each field's output name, excluded fields omitted
def n_out(self):
    return count_where(zlen(slen(self.fields), slen(self.field_converters)), lambda i: not sat(self.fields, i).exclude)


def out_pos(self, j):
    return nth_where(zlen(slen(self.fields), slen(self.field_converters)), lambda i: not sat(self.fields, i).exclude, j)


def field_ser(self, val, i):
    return ser(sat(self.field_converters, i), dynattr(val, sat(self.fields, i).name))


SPEC("pane.classes", "PaneConverter.into_data",
     shapes=PANE_SHAPES,
     requires=[lambda self, val: wf_Pane(self), lambda self, val: isinstance(val, PaneBase)],
     assumes=[lambda self, val: forall(range(slen(self.fields)), lambda i: hashable(sat(self.fields, i).out_name))],
     note="assumed: output names are strings (hashable)",
     ensures=[(lambda self, val, result: implies(self.opts.out_format == "tuple",
               slen(result) == n_out(self)
               and forall(range(n_out(self)), lambda j: sat(result, j) == field_ser(self, val, out_pos(self, j)))), ["C15", "C05", "C06"], "ser-tuple"),
              (lambda self, val, result: implies(self.opts.out_format == "struct" and self.opts.out_format != "tuple",
               forall(range(slen(self.fields)), lambda i: implies(not truthy(sat(self.fields, i).exclude),
                                                                  mhas(result, sat(self.fields, i).out_name)))
               and forall_val(lambda k: implies(mhas(result, k), exists(range(slen(self.fields)), lambda i:
                                                not truthy(sat(self.fields, i).exclude) and sat(self.fields, i).out_name == k
                                                and mget(result, k) == field_ser(self, val, i))))), ["C15", "C05", "C06"], "ser-struct")],
     raises=(lambda self, val, exc: exc_is(exc, ValueError), ["C15"]))


# ---------------------------------------------------------------------------------------------
# PaneConverter.__init__ (C15 name resolution, C18 handler precedence): establishes the class invariant
def names_field(self, k, i):
    # k is an input name of field i: its Python name or one of its configured input names
    return truthy(sat(self.fields, i).init) and (k == sat(self.fields, i).name or exists(
        range(slen(as_seq(sat(self.fields, i).in_names))), lambda a: sat(as_seq(sat(self.fields, i).in_names), a) == k))


def class_local_is_own_then_outer(self, handlers, H):
    return (slen(as_seq(H.class_local)) == slen(as_seq(self.opts.class_handlers)) + slen(as_seq(handlers.class_local))
            and forall(range(slen(as_seq(self.opts.class_handlers))),
                       lambda j: sat(as_seq(H.class_local), j) == sat(as_seq(self.opts.class_handlers), j))
            and forall(range(slen(as_seq(handlers.class_local))),
                       lambda j: sat(as_seq(H.class_local), slen(as_seq(self.opts.class_handlers)) + j) == sat(as_seq(handlers.class_local), j)))


SPEC("pane.classes", "PaneConverter.__init__",
     shapes=dict(PANE_SHAPES, **{"self.cls_info.fields": "seq", "self.cls_info.fields[]": "rec:Field", ".class_handlers": "seq",
                                 ".class_local": "seq", ".globals": "seq", "f.in_names": "seq", "handlers": "rec:ConverterHandlers",
                                 "field.in_names": "seq"}),
     mutable=["self"],
     assumes=[lambda self, cls, handlers: forall(range(slen(getattr(cls, "__pane_info__").fields)), lambda i:
              isinstance(sat(getattr(cls, "__pane_info__").fields, i).name, str)
              and forall(range(slen(as_seq(sat(getattr(cls, "__pane_info__").fields, i).in_names))), lambda a:
                         hashable(sat(as_seq(sat(getattr(cls, "__pane_info__").fields, i).in_names), a))))],
     note="assumed: field names / input names are hashable strings (Field records built by FieldSpec.make_field)",
     ensures=[
         (lambda self, cls, handlers: self.fields is getattr(cls, "__pane_info__").fields and self.opts is getattr(cls, "__pane_info__").opts
          and slen(self.field_converters) == slen(self.fields), ["C15", "C17", "C04"], "wiring"),
         # a field's own converter wins outright; otherwise the field type is built with: call-level handlers kept,
         # this class's handlers BEFORE those of enclosing classes (C18)
         (lambda self, cls, handlers: forall(range(slen(self.fields)), lambda i: sat(self.field_converters, i) == ite(
             is_none(sat(self.fields, i).converter),
             mkconv(sat(self.fields, i).type, ConverterHandlers(handlers.globals, (*self.opts.class_handlers, *handlers.class_local))),
             sat(self.fields, i).converter)), ["C18", "C15", "C04"], "handlers"),
         # input-name map: a key is bound exactly when it is an input name of some constructor field
         (lambda self, cls, handlers: forall_val(lambda k: mhas(self.field_map, k) ==
                                                 exists(range(slen(self.fields)), lambda i: names_field(self, k, i))), ["C15"], "field-map-keys"),
         (lambda self, cls, handlers: forall_val(lambda k: implies(
             mhas(self.field_map, k),
             is_int_key(mget(self.field_map, k)) and 0 <= fm_index(self, k) and fm_index(self, k) < slen(self.fields)
             and names_field(self, k, fm_index(self, k)))), ["C15", "C06"], "field-map-values")],
     invariants={
         0: lambda it, self: forall_val(lambda k: mhas(self.field_map, k) == exists(range(it), lambda i: names_field(self, k, i)))
         and forall_val(lambda k: implies(mhas(self.field_map, k),
                                          is_int_key(mget(self.field_map, k)) and 0 <= fm_index(self, k) and fm_index(self, k) < it
                                          and names_field(self, k, fm_index(self, k)))),
         1: lambda it, self, i, f: forall_val(lambda k: mhas(self.field_map, k) ==
                                              (exists(range(i), lambda i2: names_field(self, k, i2)) or k == f.name
                                               or exists(range(it), lambda a: sat(as_seq(f.in_names), a) == k)))
         and forall_val(lambda k: implies(mhas(self.field_map, k),
                                          is_int_key(mget(self.field_map, k)) and 0 <= fm_index(self, k) and fm_index(self, k) <= i
                                          and names_field(self, k, fm_index(self, k))))})
