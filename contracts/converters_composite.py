# Composite converters: Union, Struct, Tuple, Dict, Sequence.  Loop invariants are keyed by loop ordinal;
# `it` is the number of completed iterations, `<param>0` the entry value of a parameter.

# ---------------------------------------------------------------------------------------------
# UnionConverter (C11): the left-most accepting member wins
def union_construct(self, v, j):
    return ite(self.constructor is None, v, call(self.constructor, v, j))


def ACC_Union(self, val):
    return exists(range(slen(self.converters)), lambda j: acc(sat(self.converters, j), val))


SPEC("pane.converters", "UnionConverter.try_convert",
     shapes={"self.converters": "seq", "self.constructor": "total"},
     note="constructor assumed total (None for plain unions; ValueOrList's lambda cannot raise)",
     returns_iff=(lambda self, val: ACC_Union(self, val), ["C11", "C01", "C03", "C05", "C06"]),
     ensures=[(lambda self, val, result:
               exists(range(slen(self.converters)),
                      lambda j: acc(sat(self.converters, j), val)
                      and forall(range(j), lambda k: not acc(sat(self.converters, k), val))
                      and result == union_construct(self, out(sat(self.converters, j), val), j)),
               ["C11", "C01", "C05", "C06"], "val")],
     raises=(lambda self, val, exc: exc_is(exc, ParseInterrupt), ["C04", "C11"]),
     invariants={0: lambda it, val, val0, self: val is val0 and
                 forall(range(it), lambda j: not acc(sat(self.converters, j), val0))})

SPEC("pane.converters", "UnionConverter.collect_errors",
     shapes={"self.converters": "seq", "self.constructor": "total", ".children": "seq"},
     ensures=[(lambda self, val, result: is_none(result) == ACC_Union(self, val), ["C03", "C11"], "pair"),
              # one child per member, in declaration order, each the member's own tree for the same value
              (lambda self, val, result: ACC_Union(self, val) or
               (isinstance(result, SumErrorNode) and slen(result.children) == slen(self.converters)
                and forall(range(slen(self.converters)),
                           lambda j: sat(result.children, j) == err(sat(self.converters, j), val))), ["C07", "C11"], "tree")],
     no_raise=["C04", "C11"],
     invariants={0: lambda it, failed_children, self, val: slen(failed_children) == it and
                 forall(range(it), lambda j: (not acc(sat(self.converters, j), val))
                        and sat(failed_children, j) == err(sat(self.converters, j), val))})

SPEC("pane.converters", "UnionConverter.construct",
     shapes={"self.constructor": "total"},
     total=True,
     ensures=[(lambda self, val, i, result: result == union_construct(self, val, i), ["C11"], "val")],
     no_raise=["C11"])

# ---------------------------------------------------------------------------------------------
# StructConverter (struct type literal)
def wf_Struct(self):
    return forall_val(lambda k: mhas(self.field_converters, k) == mhas(self.fields, k))


def ACC_Struct(self, val):
    return (is_data_map(val)
            and forall_val(lambda k: implies(mhas(val, k), mhas(self.fields, k)
                                             and acc(mget(self.field_converters, k), mget(val, k))))
            and forall_val(lambda k: implies(mhas(self.fields, k), mhas(val, k) or shas(self.opt_fields, k))))


SPEC("pane.converters", "StructConverter.try_convert",
     shapes={"val": "map", "self.fields": "map", "self.field_converters": "map", "self.opt_fields": "set", "self.ty": "total"},
     note="self.ty assumed total on dicts (make_converter passes type(<mapping literal>))",
     requires=lambda self, val: wf_Struct(self),
     returns_iff=(lambda self, val: ACC_Struct(self, val), ["C01", "C02", "C03", "C05", "C06"]),
     ensures=[(lambda self, val, result:
               exists_val(lambda D: result == call(self.ty, D)
                          and forall_val(lambda k: mhas(D, k) == mhas(val, k))
                          and forall_val(lambda k: implies(mhas(val, k), mget(D, k) == out(mget(self.field_converters, k), mget(val, k))))),
               ["C01", "C05", "C06"], "val")],
     raises=(lambda self, val, exc: exc_is(exc, ParseInterrupt), ["C04"]),
     invariants={0: lambda it, d, self, val:
                 forall(range(it), lambda j: mhas(self.fields, key_at(val, j))
                        and acc(mget(self.field_converters, key_at(val, j)), mget(val, key_at(val, j))))
                 and forall_val(lambda k: mhas(d, k) == (mhas(val, k) and idx_of(val, k) < it))
                 and forall_val(lambda k: implies(mhas(d, k), mget(d, k) == out(mget(self.field_converters, k), mget(val, k))))})

SPEC("pane.converters", "StructConverter.collect_errors",
     shapes={"val": "map", "self.fields": "map", "self.field_converters": "map", "self.opt_fields": "set"},
     requires=lambda self, val: wf_Struct(self),
     ensures=[(lambda self, val, result: is_none(result) == ACC_Struct(self, val), ["C03"], "pair"),
              (lambda self, val, result: is_data_map(val) or is_error_leaf(result, expected_of(self), val), ["C07"], "tree"),
              (lambda self, val, result: (not is_data_map(val)) or ACC_Struct(self, val) or
               (isinstance(result, ProductErrorNode) and result.actual is val
                # children: exactly the known keys whose element is rejected on its own, each with that element's tree
                and forall_val(lambda k: mhas(result.children, k) ==
                               (mhas(val, k) and mhas(self.fields, k) and not acc(mget(self.field_converters, k), mget(val, k))))
                and forall_val(lambda k: implies(mhas(result.children, k),
                                                 mget(result.children, k) == err(mget(self.field_converters, k), mget(val, k))))
                # missing: exactly the absent required fields; extra: exactly the unknown keys
                and forall_val(lambda k: shas(result.missing, k) ==
                               (mhas(self.fields, k) and not mhas(val, k) and not shas(self.opt_fields, k)))
                and forall_val(lambda k: shas(result.extra, k) == (mhas(val, k) and not mhas(self.fields, k)))),
               ["C07"], "tree")],
     no_raise=["C04"],
     invariants={0: lambda it, children, extra, self, val:
                 forall_val(lambda k: mhas(children, k) == (mhas(val, k) and idx_of(val, k) < it and mhas(self.fields, k)
                                                            and not acc(mget(self.field_converters, k), mget(val, k))))
                 and forall_val(lambda k: implies(mhas(children, k),
                                                  mget(children, k) == err(mget(self.field_converters, k), mget(val, k))))
                 and forall_val(lambda k: shas(extra, k) == (mhas(val, k) and idx_of(val, k) < it and not mhas(self.fields, k)))})

def int_children(children, n):
    # every key of a positional product node is an index below n
    return forall_val(lambda k: implies(mhas(children, k), is_int_key(k) and 0 <= int_key(k) and int_key(k) < n))


# ---------------------------------------------------------------------------------------------
# TupleConverter (fixed-length tuple / tuple type literal)
def ACC_Tuple(self, val):
    return (is_data_seq(val) and slen(val) == slen(self.converters)
            and forall(range(slen(val)), lambda j: acc(sat(self.converters, j), sat(val, j))))


SPEC("pane.converters", "TupleConverter.try_convert",
     shapes={"val": "seq", "self.converters": "seq", "self.ty": "total"},
     note="self.ty assumed total on iterables (tuple/list or a plain subclass)",
     returns_iff=(lambda self, val: ACC_Tuple(self, val), ["C01", "C02", "C03", "C05", "C06"]),
     ensures=[(lambda self, val, result:
               result == call(self.ty, gen_of(slen(val), lambda j: out(sat(self.converters, j), sat(val, j)))), ["C01", "C05", "C06"], "val")],
     raises=(lambda self, val, exc: exc_is(exc, ParseInterrupt), ["C04"]))

SPEC("pane.converters", "TupleConverter.collect_errors",
     shapes={"val": "seq", "self.converters": "seq"},
     ensures=[(lambda self, val, result: is_none(result) == ACC_Tuple(self, val), ["C03"], "pair"),
              (lambda self, val, result: (is_data_seq(val) and slen(val) == slen(self.converters))
               or is_error_leaf(result, expected_of(self), val), ["C07"], "tree"),
              (lambda self, val, result: (not (is_data_seq(val) and slen(val) == slen(self.converters))) or ACC_Tuple(self, val) or
               (isinstance(result, ProductErrorNode) and result.actual is val
                and int_children(result.children, slen(val))
                and forall(range(slen(val)), lambda j: mhas(result.children, j) == (not acc(sat(self.converters, j), sat(val, j))))
                and forall(range(slen(val)), lambda j: implies(mhas(result.children, j),
                                                               mget(result.children, j) == err(sat(self.converters, j), sat(val, j))))
                and forall_val(lambda k: not shas(result.missing, k)) and forall_val(lambda k: not shas(result.extra, k))),
               ["C07"], "tree")],
     no_raise=["C04"],
     invariants={0: lambda it, children, self, val:
                 int_children(children, it)
                 and forall(range(it), lambda j: mhas(children, j) == (not acc(sat(self.converters, j), sat(val, j))))
                 and forall(range(it), lambda j: implies(mhas(children, j),
                                                         mget(children, j) == err(sat(self.converters, j), sat(val, j))))})

SPEC("pane.converters", "TupleConverter.into_data",
     shapes={"val": "seq", "self.converters": "seq"},
     ensures=[(lambda self, val, result: slen(result) == ite(slen(val) < slen(self.converters), slen(val), slen(self.converters))
               and forall(range(slen(result)), lambda j: sat(result, j) == ser(sat(self.converters, j), sat(val, j))), ["C05", "C06"], "ser")])

# ---------------------------------------------------------------------------------------------
# SequenceConverter (homogeneous sequences / sets)
def seq_image(self, val):
    return gen_of(slen(val), lambda j: out(self.v_conv, sat(val, j)))


def ACC_Seq(self, val):
    return (is_data_seq(val) and forall(range(slen(val)), lambda j: acc(self.v_conv, sat(val, j)))
            and not callraises(self.constructor, seq_image(self, val)))


SPEC("pane.converters", "SequenceConverter.try_convert",
     shapes={"val": "seq", "self.v_conv": "conv", "self.constructor": "callable"},
     returns_iff=(lambda self, val: ACC_Seq(self, val), ["C01", "C02", "C03", "C05", "C06"]),
     ensures=[(lambda self, val, result: result == call(self.constructor, seq_image(self, val)), ["C01", "C05", "C06"], "val")],
     raises=(lambda self, val, exc: exc_is(exc, ParseInterrupt), ["C04"]))

SPEC("pane.converters", "SequenceConverter.collect_errors",
     shapes={"val": "seq", "self.v_conv": "conv", "self.constructor": "callable"},
     ensures=[(lambda self, val, result: is_none(result) == ACC_Seq(self, val), ["C03"], "pair"),
              (lambda self, val, result: is_data_seq(val) or is_error_leaf(result, expected_of(self), val), ["C07"], "tree"),
              (lambda self, val, result: (not is_data_seq(val)) or forall(range(slen(val)), lambda j: acc(self.v_conv, sat(val, j))) or
               (isinstance(result, ProductErrorNode) and result.actual is val
                and int_children(result.children, slen(val))
                and forall(range(slen(val)), lambda j: mhas(result.children, j) == (not acc(self.v_conv, sat(val, j))))
                and forall(range(slen(val)), lambda j: implies(mhas(result.children, j),
                                                               mget(result.children, j) == err(self.v_conv, sat(val, j))))),
               ["C07"], "tree")],
     no_raise=["C04"],
     invariants={0: lambda it, nodes, vals, self, val:
                 int_children(nodes, it)
                 and forall(range(it), lambda j: mhas(nodes, j) == (not acc(self.v_conv, sat(val, j))))
                 and forall(range(it), lambda j: implies(mhas(nodes, j), mget(nodes, j) == err(self.v_conv, sat(val, j))))
                 and implies(forall_val(lambda k: not mhas(nodes, k)),
                             slen(vals) == it and forall(range(it), lambda j: sat(vals, j) == out(self.v_conv, sat(val, j))))})

# ---------------------------------------------------------------------------------------------
# DictConverter (homogeneous mappings)
def wf_Dict(self):
    # the key type is hashable (a Dict[K, V] with unhashable K has no Python values at all)
    return forall_val(lambda k: implies(acc(self.k_conv, k), hashable(out(self.k_conv, k))))


def ACC_Dict(self, val):
    return (is_data_map(val)
            and forall_val(lambda k: implies(mhas(val, k), acc(self.k_conv, k) and acc(self.v_conv, mget(val, k)))))


SPEC("pane.converters", "DictConverter.try_convert",
     shapes={"val": "map", "self.k_conv": "conv", "self.v_conv": "conv", "self.constructor": "total"},
     note="constructor assumed total on dicts (dict subclasses / defaultdict lambda); key type assumed hashable",
     requires=lambda self, val: wf_Dict(self),
     returns_iff=(lambda self, val: ACC_Dict(self, val), ["C01", "C02", "C03", "C05", "C06"]),
     ensures=[(lambda self, val, result:
               exists_val(lambda D: result == call(self.constructor, D)
                          and forall_val(lambda k2: mhas(D, k2) == exists_val(lambda k: mhas(val, k) and out(self.k_conv, k) == k2))
                          and forall_val(lambda k: implies(mhas(val, k), mhas(D, out(self.k_conv, k))))), ["C01", "C05", "C06"], "val")],
     raises=(lambda self, val, exc: exc_is(exc, ParseInterrupt), ["C04"]))

SPEC("pane.converters", "DictConverter.collect_errors",
     shapes={"val": "map", "self.k_conv": "conv", "self.v_conv": "conv"},
     ensures=[(lambda self, val, result: is_none(result) == ACC_Dict(self, val), ["C03"], "pair"),
              (lambda self, val, result: is_data_map(val) or is_error_leaf(result, expected_of(self), val), ["C07"], "tree"),
              # children are keyed by exactly the offending keys (the key itself), as C07 states
              (lambda self, val, result: (not is_data_map(val)) or ACC_Dict(self, val) or
               (isinstance(result, ProductErrorNode) and result.actual is val
                and forall_val(lambda k: mhas(result.children, k) ==
                               (mhas(val, k) and not (acc(self.k_conv, k) and acc(self.v_conv, mget(val, k)))))),
               ["C07"], "tree-keys")],
     no_raise=["C04"],
     invariants={0: lambda it, nodes, self, val:
                 forall_val(lambda k: mhas(nodes, k) ==
                            (mhas(val, k) and idx_of(val, k) < it and not (acc(self.k_conv, k) and acc(self.v_conv, mget(val, k)))))})
