# pane/io.py (C19): readers = parse then from_data; writers = into_data then dump, every formatting option passed through by
# name; paths are opened as UTF-8 by us (and closed by the with-statement), caller-supplied streams are wrapped in a null context.
# The dependencies (json, PyYAML, open) are external: `ext(name, args...)` is the value such a call returns.

IO_SHAPES = {"f": "", "ext:open": "", "ext:contextlib.nullcontext": "", "ext:yaml.load_all": "seq"}


def is_io(f):
    return isinstance(f, IOBase) or isinstance(f, BinaryIO) or isinstance(f, TextIO)


SPEC("pane.io", "open_file",
     shapes=IO_SHAPES,
     ensures=[
         # a path (anything that is not an IO object) is opened by us with the requested newline and encoding
         (lambda f, mode, newline, encoding, result: implies(not is_io(f), result == ext("open", f, mode, newline=newline, encoding=encoding)),
          ["C19"], "path-opened"),
         # a caller's text stream is handed back inside a NULL context (leaving the `with` does not close it), and it is the SAME object
         (lambda f, mode, newline, encoding, result: implies(is_io(f) and (isinstance(f, TextIOWrapper) or not (isinstance(f, TextIO) or isinstance(f, BufferedIOBase)
                                                                                                                  or isinstance(f, BinaryIO))),
                                                     result == ext("contextlib.nullcontext", f)), ["C19"], "stream-not-owned"),
         (lambda f, mode, newline, encoding, result: implies(is_io(f), exists_val(lambda g: result == ext("contextlib.nullcontext", g))), ["C19"], "null-context")])


def opened(f, mode):
    return ret("pane.io:open_file", f, mode, None, "utf-8")


SPEC("pane.io", "from_json",
     shapes=IO_SHAPES,
     ensures=[(lambda f, ty, custom, result: result == ret("pane.convert:from_data", ext("json.load", cm_enter(opened(f, "r"))), ty, custom), ["C19"], "parse-then-convert"),
              (lambda f, ty, custom, result: exited(opened(f, "r")), ["C19"], "closed")])

SPEC("pane.io", "write_json",
     shapes=IO_SHAPES,
     ensures=[(lambda obj, f, ty, indent, sort_keys, custom, result:
               did_call("json.dump", ret("pane.convert:into_data", obj, ty, custom), cm_enter(opened(f, "w")), indent=indent, sort_keys=sort_keys),
               ["C19"], "convert-then-dump"),
              (lambda obj, f, ty, indent, sort_keys, custom, result: exited(opened(f, "w")), ["C19"], "closed")])


def yaml_loader():
    return clsref_dotted("yaml.CSafeLoader")


SPEC("pane.io", "from_yaml",
     shapes=IO_SHAPES,
     ensures=[(lambda f, ty, custom, result: result == ret("pane.convert:from_data", ext("yaml.load", cm_enter(opened(f, "r")), yaml_loader()), ty, custom),
               ["C19"], "parse-then-convert"),
              (lambda f, ty, custom, result: exited(opened(f, "r")), ["C19"], "closed")])

# one converted value per document: the whole document list is converted as List[ty] (nothing filtered out)
SPEC("pane.io", "from_yaml_all",
     shapes=IO_SHAPES,
     ensures=[(lambda f, ty, custom, result: result == ret("pane.convert:from_data", list(as_seq(ext("yaml.load_all", cm_enter(opened(f, "r")), yaml_loader()))),
                                                       List[ty], custom), ["C19"], "one-per-document"),
              (lambda f, ty, custom, result: exited(opened(f, "r")), ["C19"], "closed")])

SPEC("pane.io", "write_yaml",
     shapes=IO_SHAPES,
     ensures=[(lambda obj, f, ty, indent, width, allow_unicode, explicit_start, explicit_end, default_style, default_flow_style, sort_keys, custom, result:
               did_call("yaml.dump", ret("pane.convert:into_data", obj, ty, custom), cm_enter(opened(f, "w")), Dumper=clsref_dotted("yaml.CSafeDumper"),
                        indent=indent, width=width, allow_unicode=allow_unicode, explicit_start=explicit_start, explicit_end=explicit_end,
                        default_style=default_style, default_flow_style=default_flow_style, sort_keys=sort_keys), ["C19"], "convert-then-dump"),
              (lambda obj, f, ty, indent, width, allow_unicode, explicit_start, explicit_end, default_style, default_flow_style, sort_keys, custom, result:
               exited(opened(f, "w")), ["C19"], "closed")])

# dataclass convenience methods delegate with ty = the class itself
SPEC("pane.classes", "PaneBase.from_json",
     ensures=[(lambda cls, f, custom, result: result == ret("pane.io:from_json", f, cls, custom), ["C19"], "delegates")])
SPEC("pane.classes", "PaneBase.from_yaml",
     ensures=[(lambda cls, f, custom, result: result == ret("pane.io:from_yaml", f, cls, custom), ["C19"], "delegates")])
SPEC("pane.classes", "PaneBase.from_yaml_all",
     ensures=[(lambda cls, f, custom, result: result == ret("pane.io:from_yaml_all", f, cls, custom), ["C19"], "delegates")])
SPEC("pane.classes", "PaneBase.from_data",
     ensures=[(lambda cls, data, custom, result: result == ret("pane.convert:from_data", data, cls, custom), ["C01", "C14"], "delegates")])
SPEC("pane.classes", "PaneBase.into_data",
     ensures=[(lambda self, custom, result: result == ret("pane.convert:into_data", self, self.__class__, custom), ["C05"], "delegates")])


# ---------------------------------------------------------------------------------------------
# BOUNDED (run-time only): the composed file round trip, over sink/source kinds x formatting options x a pool of typed values
SPEC("pane.io", "roundtrip.bounded", bounded=True,
     ensures=[(lambda fmt, sink, value, ty, options, result: rt_same(result["value"], value), ["C19"], "round-trip"),
              (lambda fmt, sink, value, ty, options, result: result["caller_stream_left_open"], ["C19"], "stream-left-open"),
              (lambda fmt, sink, value, ty, options, result: result["path_handle_closed"], ["C19"], "path-closed")],
     no_raise=["C19"],
     note="bounded: JSON/YAML x (path, str path, text stream, returned string) x formatting options x pool values; json / PyYAML load-dump is the assumed dependency")


def rt_same(a, b):
    return rt_eq(a, b)


SPEC("pane.io", "from_yaml_all.bounded", bounded=True,
     ensures=[(lambda value, ty, result: len(result) == len(value), ["C19"], "one-per-document")],
     no_raise=["C19"], note="bounded: multi-document streams including null documents")


# string variants: the text is wrapped in a StringIO and handed to the reader OF THE SAME FORMAT
SPEC("pane.classes", "PaneBase.from_jsons",
     ensures=[(lambda cls, s, custom, result: result == ret("pane.io:from_json", call(StringIO, s), cls, custom), ["C19"], "delegates")])
SPEC("pane.classes", "PaneBase.from_yamls",
     ensures=[(lambda cls, s, custom, result: result == ret("pane.io:from_yaml", call(StringIO, s), cls, custom), ["C19"], "delegates")])
SPEC("pane.classes", "PaneBase.from_obj",
     ensures=[(lambda cls, obj, custom, result: result == ret("pane.convert:convert", obj, cls, custom), ["C06", "C14"], "delegates")])

# writers on an instance: serialise SELF as its own class with every option passed on; without a sink the text is returned
SPEC("pane.classes", "PaneBase.write_json",
     ensures=[(lambda self, f, indent, sort_keys, custom, result: implies(not is_none(f),
               made(ret("pane.io:write_json", self, f, self.__class__, indent, sort_keys, custom)) and is_none(result)), ["C19"], "to-sink"),
              (lambda self, f, indent, sort_keys, custom, result: implies(is_none(f), exists_val(lambda buf:
               made(ret("pane.io:write_json", self, buf, self.__class__, indent, sort_keys, custom)) and result == methcall("getvalue", buf))), ["C19"], "to-string")])

SPEC("pane.classes", "PaneBase.write_yaml",
     ensures=[(lambda self, f, indent, width, allow_unicode, explicit_start, explicit_end, default_style, default_flow_style, sort_keys, custom, result:
               implies(not is_none(f),
                       made(ret("pane.io:write_yaml", self, f, self.__class__, indent, width, allow_unicode, explicit_start, explicit_end,
                                default_style, default_flow_style, sort_keys, custom)) and is_none(result)), ["C19"], "to-sink"),
              (lambda self, f, indent, width, allow_unicode, explicit_start, explicit_end, default_style, default_flow_style, sort_keys, custom, result:
               implies(is_none(f), exists_val(lambda buf:
                       made(ret("pane.io:write_yaml", self, buf, self.__class__, indent, width, allow_unicode, explicit_start, explicit_end,
                                default_style, default_flow_style, sort_keys, custom)) and result == methcall("getvalue", buf))), ["C19"], "to-string")])
