# pane/types.py: ValueOrList (a value, or a list of values, of one element type)

VOL_SHAPES = {"self.converters": "seq", "val": "rec:ValueOrList", "self": "rec:ValueOrList", "._inner[]": "", "self._inner": "seq", "val._inner": "seq"}


# serialisation uses the element converter this converter was BUILT with (same handlers, C18), element-wise, order kept;
# the single-value form stays a single value (so that parsing gives back the same form, C05)
SPEC("pane.types", "ValueOrListConverter.into_data",
     shapes=VOL_SHAPES,
     requires=[lambda self, val: isinstance(val, ValueOrList), lambda self, val: slen(self.converters) == 2],
     ensures=[(lambda self, val, result: implies(truthy(val._is_val), result == ser(sat(self.converters, 0), val._inner)), ["C05", "C06", "C18"], "ser-value"),
              (lambda self, val, result: implies(not truthy(val._is_val),
                                                 isinstance(result, list) and slen(result) == slen(val._inner)
                                                 and forall(range(slen(val._inner)), lambda j: sat(result, j) == ser(sat(self.converters, 0), sat(val._inner, j)))),
               ["C05", "C06", "C18"], "ser-list")])

SPEC("pane.types", "ValueOrList.map",
     shapes=VOL_SHAPES,
     ensures=[(lambda self, f, result: isinstance(result, ValueOrList) and truthy(result._is_val) == truthy(self._is_val), ["C05"], "form"),
              (lambda self, f, result: implies(truthy(self._is_val), result._inner == call(f, self._inner)), ["C05"], "value"),
              (lambda self, f, result: implies(not truthy(self._is_val), isinstance(result._inner, list) and slen(result._inner) == slen(self._inner)
                                               and forall(range(slen(self._inner)), lambda j: sat(result._inner, j) == call(f, sat(self._inner, j)))), ["C05"], "list")])

# the constructor keeps the form flag: member 0 of the underlying union is the single value, member 1 the list
SPEC("pane.types", "ValueOrListConverter.__init__", mutable=["self"],
     shapes={"self.converters": "seq"},
     ensures=[(lambda self, ty, handlers: self.ty is ty and slen(self.converters) == 2
               and sat(self.converters, 0) == mkconv(ty, handlers), ["C18", "C05"], "children")])

SPEC("pane.types", "ValueOrList.__init__", mutable=["self"], total=True,
     ensures=[(lambda self, val, _is_val: self._inner is val and self._is_val is _is_val, ["C05"], "fields")])

# ValueOrList[T] annotations build the converter with the element type (Any when unsubscripted) and THE handlers (C18)
SPEC("pane.types", "ValueOrList._converter",
     shapes={"args": "seq"},
     ensures=[(lambda cls, args, handlers, result: result == ValueOrListConverter(ite(slen(args) > 0, sat(args, 0), ANY), handlers=handlers), ["C18", "C01"], "wiring")])

# equality distinguishes the single-value form from the one-element list (C05: the round trip keeps the form)
SPEC("pane.types", "ValueOrList.__eq__",
     shapes={"self": "rec:ValueOrList", "other": "rec:ValueOrList"},
     ensures=[(lambda self, other, result: implies(self.__class__ == other.__class__,
                                                   truthy(result) == (self._is_val == other._is_val and self._inner == other._inner)), ["C05"], "form-and-content"),
              (lambda self, other, result: implies(self.__class__ != other.__class__, not truthy(result)), ["C05"], "other-class")])
