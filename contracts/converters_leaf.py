# Loop-free converter classes: Literal, Conditional, Delegate, Enum, Pattern, TaggedUnion.

# ---------------------------------------------------------------------------------------------
# LiteralConverter
SPEC("pane.converters", "LiteralConverter.try_convert",
     shapes={"self.vals": "seq"},
     returns_iff=(lambda self, val: val in self.vals, ["C01", "C03", "C05", "C06"]),
     ensures=[(lambda self, val, result: result is val, ["C01", "C05", "C06"], "val")],
     raises=(lambda self, val, exc: exc_is(exc, ParseInterrupt), ["C04"]))

SPEC("pane.converters", "LiteralConverter.collect_errors",
     shapes={"self.vals": "seq"},
     ensures=[(lambda self, val, result: is_none(result) == (val in self.vals), ["C03"], "pair"),
              (lambda self, val, result: (val in self.vals) or is_error_leaf(result, expected_of(self), val), ["C07"], "tree")],
     no_raise=["C04"])

# ---------------------------------------------------------------------------------------------
# ConditionalConverter (C13): T accepts and the predicate holds ON THE CONVERTED VALUE;
# a raising predicate is a failed condition; accepted value returned unchanged; into_data ignores it.
def cond_holds(self, v):
    return (not callraises(self.condition, v)) and truthy(call(self.condition, v))


def ACC_Conditional(self, val):
    return acc(self.inner, val) and cond_holds(self, out(self.inner, val))


SPEC("pane.converters", "ConditionalConverter.try_convert",
     shapes={"self.inner": "conv", "self.condition": "callable"},
     returns_iff=(lambda self, val: ACC_Conditional(self, val), ["C13", "C01", "C03", "C05", "C06"]),
     ensures=[(lambda self, val, result: result == out(self.inner, val), ["C13", "C01", "C05", "C06"], "val")],
     raises=(lambda self, val, exc: exc_is(exc, ParseInterrupt), ["C04", "C13"]))

SPEC("pane.converters", "ConditionalConverter.collect_errors",
     shapes={"self.inner": "conv", "self.condition": "callable"},
     ensures=[(lambda self, val, result: is_none(result) == ACC_Conditional(self, val), ["C03", "C13"], "pair"),
              # inner failure: exactly the inner type's own tree
              (lambda self, val, result: acc(self.inner, val) or result == err(self.inner, val), ["C07"], "tree"),
              # predicate failure: a ConditionFailed leaf recording the offending value, cause set iff it raised
              (lambda self, val, result: (not acc(self.inner, val)) or cond_holds(self, out(self.inner, val)) or
               (isinstance(result, ConditionFailedError) and result.actual is val and result.condition == self.condition_name
                and is_none(result.cause) == (not callraises(self.condition, out(self.inner, val)))), ["C07", "C13", "C08"], "tree")],
     no_raise=["C04", "C13"])

SPEC("pane.converters", "ConditionalConverter.into_data",
     shapes={"self.inner": "conv"},
     ensures=[(lambda self, val, result: result == ser(self.inner, val), ["C13", "C05", "C06"], "ser")],
     no_raise=["C13"])

# ---------------------------------------------------------------------------------------------
# DelegateConverter
def ACC_Delegate(self, val):
    return acc(self.inner, val) and not callraises(self.constructor, out(self.inner, val))


SPEC("pane.converters", "DelegateConverter.try_convert",
     shapes={"self.inner": "conv", "self.constructor": "callable"},
     returns_iff=(lambda self, val: ACC_Delegate(self, val), ["C01", "C03", "C05", "C06"]),
     ensures=[(lambda self, val, result: result == call(self.constructor, out(self.inner, val)), ["C01", "C05", "C06"], "val")],
     raises=(lambda self, val, exc: exc_is(exc, ParseInterrupt), ["C04"]))

SPEC("pane.converters", "DelegateConverter.collect_errors",
     shapes={"self.inner": "conv", "self.constructor": "callable"},
     ensures=[(lambda self, val, result: is_none(result) == ACC_Delegate(self, val), ["C03"], "pair"),
              (lambda self, val, result: acc(self.inner, val) or result == err(self.inner, val), ["C07"], "tree"),
              (lambda self, val, result: (not acc(self.inner, val)) or ACC_Delegate(self, val) or
               (isinstance(result, WrongTypeError) and result.actual is val and not is_none(result.cause)), ["C07", "C08"], "tree")],
     no_raise=["C04"])

# ---------------------------------------------------------------------------------------------
# EnumConverter: value of a member -> the member
def wf_Enum(self):
    # class invariant established by __init__: member values are hashable (dict keys) and the inner
    # converter yields values of those (hashable) value types
    return (forall_val(lambda k: implies(mhas(self.val_map, k), hashable(k))) and
            forall_val(lambda v: implies(acc(self.inner_conv, v), hashable(out(self.inner_conv, v)))))


def ACC_Enum(self, val):
    return acc(self.inner_conv, val) and mhas(self.val_map, out(self.inner_conv, val))


SPEC("pane.converters", "EnumConverter.try_convert",
     shapes={"self.inner_conv": "conv", "self.val_map": "map"},
     requires=lambda self, val: wf_Enum(self),
     returns_iff=(lambda self, val: ACC_Enum(self, val), ["C01", "C02", "C03", "C05", "C06"]),
     ensures=[(lambda self, val, result: result == mget(self.val_map, out(self.inner_conv, val)), ["C01", "C05", "C06"], "val")],
     raises=(lambda self, val, exc: exc_is(exc, ParseInterrupt), ["C04"]))

SPEC("pane.converters", "EnumConverter.collect_errors",
     shapes={"self.inner_conv": "conv", "self.val_map": "map"},
     requires=lambda self, val: wf_Enum(self),
     ensures=[(lambda self, val, result: is_none(result) == ACC_Enum(self, val), ["C03"], "pair"),
              (lambda self, val, result: acc(self.inner_conv, val) or result == err(self.inner_conv, val), ["C07"], "tree"),
              (lambda self, val, result: (not acc(self.inner_conv, val)) or ACC_Enum(self, val) or isinstance(result, WrongTypeError), ["C07"], "tree")],
     no_raise=["C04"])

# ---------------------------------------------------------------------------------------------
# PatternConverter: a compiled pattern is read through its own source text
def pat_src(val):
    return ite(isinstance(val, Pattern), attr(val, "pattern"), val)


def ACC_Pattern(self, val):
    return acc(self.ty_conv, pat_src(val)) and not re_compile_raises(out(self.ty_conv, pat_src(val)))


SPEC("pane.converters", "PatternConverter.try_convert",
     shapes={"self.ty_conv": "conv"},
     returns_iff=(lambda self, val: ACC_Pattern(self, val), ["C01", "C03", "C06", "C05"]),
     ensures=[(lambda self, val, result: result == re_compile(out(self.ty_conv, pat_src(val))), ["C01", "C05", "C06"], "val")],
     raises=(lambda self, val, exc: exc_is(exc, ParseInterrupt), ["C04"]))

SPEC("pane.converters", "PatternConverter.collect_errors",
     shapes={"self.ty_conv": "conv"},
     ensures=[(lambda self, val, result: is_none(result) == ACC_Pattern(self, val), ["C03"], "pair"),
              (lambda self, val, result: ACC_Pattern(self, val) or isinstance(result, WrongTypeError), ["C07"], "tree")],
     no_raise=["C04", "C03"])

# ---------------------------------------------------------------------------------------------
# TaggedUnionConverter (C12): the variant is chosen by the tag value alone
def wf_Tagged(self):
    return ((self.external is False or self.external is True or
             (isinstance(self.external, Sequence) and not isinstance(self.external, bool) and slen(self.external) == 2
              and isinstance(sat(self.external, 0), str) and isinstance(sat(self.external, 1), str)
              and sat(self.external, 0) != sat(self.external, 1)))
            and isinstance(self.tag, str)
            and forall_val(lambda k: implies(mhas(self.tag_map, k),
                                             hashable(k) and is_int_key(mget(self.tag_map, k))
                                             and 0 <= int_key(mget(self.tag_map, k))
                                             and int_key(mget(self.tag_map, k)) < slen(self.converters))))


def tagged_extract_ok(self, val):
    # layout-specific presence of (tag, body)
    return is_data_map(val) and ite(self.external is False, mhas(val, self.tag),
                                    ite(self.external is True, mlen(val) == 1,
                                        mlen(val) == 2 and mhas(val, sat(self.external, 0)) and mhas(val, sat(self.external, 1))))


def tagged_tag(self, val):
    return ite(self.external is False, mget(val, self.tag),
               ite(self.external is True, key_at(val, 0), mget(val, sat(self.external, 0))))


def tagged_body(self, val):
    return ite(self.external is False, without_key(dict(as_map(val)), self.tag),
               ite(self.external is True, mget(val, key_at(val, 0)), mget(val, sat(self.external, 1))))


def tagged_variant(self, val):
    return sat(self.converters, int_key(mget(self.tag_map, tagged_tag(self, val))))


def ACC_Tagged(self, val):
    return (tagged_extract_ok(self, val) and mhas(self.tag_map, tagged_tag(self, val))
            and acc(tagged_variant(self, val), tagged_body(self, val)))


SPEC("pane.converters", "TaggedUnionConverter.try_convert",
     shapes={"val": "map", "self.tag_map": "map", "self.converters": "seq", "self.tag": "str", "t_r": "str", "c_r": "str"},
     requires=lambda self, val: wf_Tagged(self),
     returns_iff=(lambda self, val: ACC_Tagged(self, val), ["C12", "C01", "C03", "C05", "C06"]),
     ensures=[(lambda self, val, result: result == out(tagged_variant(self, val), tagged_body(self, val)), ["C12", "C01", "C05", "C06"], "val")],
     raises=(lambda self, val, exc: exc_is(exc, ParseInterrupt), ["C04", "C12"]))

SPEC("pane.converters", "TaggedUnionConverter.collect_errors",
     shapes={"val": "map", "self.tag_map": "map", "self.converters": "seq", "self.tag": "str", "t_r": "str", "c_r": "str"},
     requires=lambda self, val: wf_Tagged(self),
     ensures=[(lambda self, val, result: is_none(result) == ACC_Tagged(self, val), ["C03", "C12"], "pair"),
              # body errors are reported for the selected variant only
              (lambda self, val, result: (not (tagged_extract_ok(self, val) and mhas(self.tag_map, tagged_tag(self, val))))
               or ACC_Tagged(self, val) or result == err(tagged_variant(self, val), tagged_body(self, val)), ["C12", "C07"], "tree"),
              # absent / unknown tag is a leaf
              (lambda self, val, result: (tagged_extract_ok(self, val) and mhas(self.tag_map, tagged_tag(self, val)))
               or isinstance(result, WrongTypeError), ["C12", "C07"], "tree")],
     no_raise=["C04", "C12"])

SPEC("pane.converters", "TaggedUnionConverter.into_data",
     shapes={"self.tag_map": "map", "self.converters": "seq", "self.tag": "str", "t_r": "str", "c_r": "str"},
     requires=[lambda self, val: wf_Tagged(self),
               lambda self, val: mhas(self.tag_map, dynattr(val, self.tag))],
     ensures=[(lambda self, val, result:
               ite(self.external is False,
                   result == ser(sat(self.converters, int_key(mget(self.tag_map, dynattr(val, self.tag)))), val),
                   ite(self.external is True,
                       mlen(result) == 1 and mhas(result, dynattr(val, self.tag)) and
                       mget(result, dynattr(val, self.tag)) == ser(sat(self.converters, int_key(mget(self.tag_map, dynattr(val, self.tag)))), val),
                       mhas(result, sat(self.external, 0)) and mget(result, sat(self.external, 0)) == dynattr(val, self.tag) and
                       mhas(result, sat(self.external, 1)) and
                       mget(result, sat(self.external, 1)) == ser(sat(self.converters, int_key(mget(self.tag_map, dynattr(val, self.tag)))), val))),
               ["C12", "C05", "C06"], "ser")])
