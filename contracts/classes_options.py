# class options (C17: inherited unless overridden; C16 option cube; C18 class-level handlers)

OPTION_NAMES = ["name", "eq", "order", "frozen", "unsafe_hash", "kw_only", "out_format", "in_format", "in_rename", "out_rename",
                "allow_extra", "class_handlers"]


def kept_or_changed(self, changes, result, n):
    # an option that is not passed (absent or None) keeps the inherited value; a passed one overrides it
    return attr_named(result, n) == ite(mhas(changes, n) and not is_none(mget(changes, n)), mget(changes, n), attr_named(self, n))


SPEC("pane.classes", "PaneOptions.replace",
     shapes={"changes": "map"},
     ensures=[(lambda self, changes, result: kept_or_changed(self, changes, result, "eq") and kept_or_changed(self, changes, result, "order")
               and kept_or_changed(self, changes, result, "frozen") and kept_or_changed(self, changes, result, "kw_only")
               and kept_or_changed(self, changes, result, "out_format") and kept_or_changed(self, changes, result, "in_format")
               and kept_or_changed(self, changes, result, "in_rename") and kept_or_changed(self, changes, result, "out_rename")
               and kept_or_changed(self, changes, result, "allow_extra") and kept_or_changed(self, changes, result, "class_handlers")
               and kept_or_changed(self, changes, result, "unsafe_hash"), ["C17", "C16", "C18"], "inherit-or-override")],
     no_raise=["C17"])


SPEC("pane.classes", "_process", trusted=True,
     raises=(lambda cls, opts, exc: exc_is(exc, TypeError) or exc_is(exc, ValueError), ["C17"]),
     note="assumed here (field merge / ordering / positional bounds are checked by the run-time contract check over class hierarchies)")


def inherited_opts(cls):
    return ite(has_attr(cls, "__pane_info__"), attr(attr(cls, "__pane_info__"), "opts"), PaneOptions())


def opt_passed(inh, passed, n):
    return ite(is_none(passed), attr_named(inh, n), passed)


SPEC("pane.classes", "PaneBase.__init_subclass__",
     accepts=["name", "out_format", "in_format", "eq", "order", "frozen", "unsafe_hash", "kw_only", "rename", "in_rename", "out_rename",
              "allow_extra", "custom"],     # the argument list of docs/using/dataclasses.md (C16: class options accepted at class creation)
     props=["C16", "C17"],
     shapes={"opts": "rec:PaneOptions", "args": "seq", "kwargs": "map", ".__parameters__": "seq", "getattr(cls, PANE_INFO).opts": "rec:PaneOptions"},
     mutable=["cls"],
     ensures=[
         # every option not passed keeps the inherited value; a passed one overrides (C17)
         (lambda cls, name, out_format, in_format, eq, order, frozen, unsafe_hash, kw_only, rename, in_rename, out_rename, allow_extra, custom, final_opts:
          final_opts.unsafe_hash == opt_passed(inherited_opts(cls), unsafe_hash, "unsafe_hash")
          and final_opts.out_format == opt_passed(inherited_opts(cls), out_format, "out_format")
          and final_opts.in_format == opt_passed(inherited_opts(cls), in_format, "in_format")
          and final_opts.eq == opt_passed(inherited_opts(cls), eq, "eq") and final_opts.order == opt_passed(inherited_opts(cls), order, "order")
          and final_opts.frozen == opt_passed(inherited_opts(cls), frozen, "frozen")
          and final_opts.kw_only == opt_passed(inherited_opts(cls), kw_only, "kw_only")
          and final_opts.allow_extra == opt_passed(inherited_opts(cls), allow_extra, "allow_extra"), ["C17", "C16"], "options"),
         # `rename` sets both directions; otherwise in_rename / out_rename individually
         (lambda cls, name, out_format, in_format, eq, order, frozen, kw_only, rename, in_rename, out_rename, allow_extra, custom, final_opts:
          implies(not is_none(rename), final_opts.out_rename == rename and slen(as_seq(final_opts.in_rename)) == 1
                  and sat(as_seq(final_opts.in_rename), 0) == rename), ["C17", "C15"], "rename"),
         (lambda cls, name, out_format, in_format, eq, order, frozen, kw_only, rename, in_rename, out_rename, allow_extra, custom, final_opts:
          implies(is_none(rename), final_opts.out_rename == opt_passed(inherited_opts(cls), out_rename, "out_rename")), ["C17"], "out-rename"),
         # class-level custom handlers are inherited unless this class passes its own (C17, C18)
         (lambda cls, name, out_format, in_format, eq, order, frozen, kw_only, rename, in_rename, out_rename, allow_extra, custom, final_opts:
          final_opts.class_handlers == ite(is_none(custom), attr_named(inherited_opts(cls), "class_handlers"),
                                           retc("pane.convert:ConverterHandlers._process", custom)), ["C17", "C18"], "class-handlers")],
     raises=(lambda cls, name, out_format, in_format, eq, order, frozen, kw_only, rename, in_rename, out_rename, allow_extra, custom, exc:
             exc_is(exc, ValueError) or exc_is(exc, TypeError), ["C17"]))
