# Construction of composite converters (C18: handlers passed to a conversion reach every depth; C12 tag map)

SPEC("pane.converters", "UnionConverter.__init__",
     shapes={"types": "seq"}, mutable=["self"],
     ensures=[(lambda self, types, handlers, constructor: slen(self.converters) == slen(types)
               and forall(range(slen(types)), lambda j: sat(self.converters, j) == mkconv(sat(types, j), handlers)), ["C18", "C11", "C07", "C03"], "children"),
              (lambda self, types, handlers, constructor: self.constructor is constructor, ["C11"], "constructor")],
     raises=(lambda self, types, handlers, constructor, exc: exc_is(exc, TypeError) or exc_is(exc, UnsupportedAnnotation), ["C04"]))

SPEC("pane.converters", "TupleConverter.__init__",
     shapes={"types": "seq"}, mutable=["self"],
     ensures=[(lambda self, ty, types, handlers: self.ty is ty and slen(self.converters) == slen(types)
               and forall(range(slen(types)), lambda j: sat(self.converters, j) == mkconv(sat(types, j), handlers)), ["C18", "C01"], "children")])

SPEC("pane.converters", "SequenceConverter.__init__",
     mutable=["self"],
     ensures=[(lambda self, ty, v, handlers, constructor: self.ty is ty and self.v_conv == mkconv(v, handlers) and self.handlers is handlers
               and self.constructor is ite(is_none(constructor), ty, constructor), ["C18", "C01"], "children")])

SPEC("pane.converters", "DictConverter.__init__",
     mutable=["self"],
     ensures=[(lambda self, ty, k, v, constructor, handlers: self.ty is ty and self.k_conv == mkconv(k, handlers) and self.v_conv == mkconv(v, handlers)
               and self.handlers is handlers and self.constructor is ite(is_none(constructor), ty, constructor), ["C18", "C01"], "children")])

SPEC("pane.converters", "StructConverter.__post_init__",
     shapes={"self.fields": "map"}, mutable=["self"],
     assumes=[lambda self: forall_val(lambda k: implies(mhas(self.fields, k), hashable(k)))],
     ensures=[(lambda self: forall_val(lambda k: mhas(self.field_converters, k) == mhas(self.fields, k)), ["C18", "C01"], "keys"),
              (lambda self: forall_val(lambda k: implies(mhas(self.fields, k), mget(self.field_converters, k) == mkconv(mget(self.fields, k), self.handlers))),
               ["C18", "C01"], "children")])

SPEC("pane.converters", "DelegateConverter.__post_init__",
     mutable=["self"],
     ensures=[(lambda self: self.inner == mkconv(self.from_type, self.handlers), ["C18", "C01"], "children")])

SPEC("pane.converters", "ConditionalConverter.__post_init__",
     mutable=["self"],
     ensures=[(lambda self: self.inner == ite(isinstance(self.inner_type, Converter), self.inner_type, mkconv(self.inner_type, self.handlers)),
               ["C18", "C13"], "children")])

SPEC("pane.converters", "NestedSequenceConverter.__post_init__",
     mutable=["self"],
     ensures=[(lambda self: self.val_conv == mkconv(self.val_type, self.handlers), ["C18", "C01"], "children")])

# ---------------------------------------------------------------------------------------------
# TaggedUnionConverter.__init__ (C12): every member carries the tag attribute, duplicate tag values are refused
SPEC("pane.converters", "TaggedUnionConverter.__init__",
     shapes={"types": "seq", "self.types": "seq"}, mutable=["self"],
     ensures=[(lambda self, types, tag, external, handlers: self.tag is tag, ["C12"], "tag"),
              # the map sends each member's declared tag value to that member's index: injective on indices
              (lambda self, types, tag, external, handlers: forall(range(slen(self.types)), lambda j:
                  mhas(self.tag_map, dynattr(sat(self.types, j), tag)) and int_key(mget(self.tag_map, dynattr(sat(self.types, j), tag))) == j),
               ["C12"], "tag-map"),
              (lambda self, types, tag, external, handlers: forall(range(slen(self.types)), lambda j: forall(range(slen(self.types)), lambda j2:
                  implies(dynattr(sat(self.types, j), tag) == dynattr(sat(self.types, j2), tag), j == j2))), ["C12"], "unique-tags"),
              (lambda self, types, tag, external, handlers: forall_val(lambda k: implies(mhas(self.tag_map, k),
                  is_int_key(mget(self.tag_map, k)) and 0 <= int_key(mget(self.tag_map, k)) and int_key(mget(self.tag_map, k)) < slen(self.types))),
               ["C12"], "tag-map-range")],
     raises=(lambda self, types, tag, external, handlers, exc: exc_is(exc, TypeError) or exc_is(exc, UnsupportedAnnotation), ["C12", "C04"]),
     invariants={0: lambda it, self, tag: forall(range(it), lambda j: mhas(self.tag_map, dynattr(sat(self.types, j), tag))
                                                 and int_key(mget(self.tag_map, dynattr(sat(self.types, j), tag))) == j)
                 and forall_val(lambda k: implies(mhas(self.tag_map, k),
                                                  is_int_key(mget(self.tag_map, k)) and 0 <= int_key(mget(self.tag_map, k)) and int_key(mget(self.tag_map, k)) < it
                                                  and dynattr(sat(self.types, int_key(mget(self.tag_map, k))), tag) == k))})


# EnumConverter.__init__: values map back to their members; the value converter is built with the handlers (C18); flag enums,
# unhashable or non-interchange member values are refused with TypeError before any data is looked at (C04)
SPEC("pane.converters", "EnumConverter.__init__",
     shapes={"ty.__members__": "map", "members": "seq", "self.member_vals": "seq"}, mutable=["self"],
     assumes=[lambda self, ty, handlers: forall_val(lambda k: implies(mhas(ty.__members__, k), has_attr(mget(ty.__members__, k), "value")))],
     note="assumed: every member of an Enum class has a .value (enum module)",
     ensures=[(lambda self, ty, handlers: self.ty is ty, ["C01"], "type"),
              (lambda self, ty, handlers: self.inner_conv == mkconv(self.inner_ty, handlers), ["C18", "C01"], "value-converter"),
              (lambda self, ty, handlers: forall_val(lambda k: implies(mhas(self.val_map, k), attr(mget(self.val_map, k), "value") == k)), ["C01", "C06"], "value-map")],
     raises=(lambda self, ty, handlers, exc: exc_is(exc, TypeError) or exc_is(exc, UnsupportedAnnotation), ["C04"]))


SPEC("pane.converters", "PatternConverter.__init__",
     shapes={"args": "seq"}, mutable=["self"],
     ensures=[(lambda self, ty, args, handlers: self.ty is ty and (issub(ty, str) or issub(ty, bytes)) and slen(args) == 0, ["C01"], "text-kind"),
              (lambda self, ty, args, handlers: self.ty_conv == mkconv(ty, handlers), ["C18", "C01"], "value-converter")],
     raises=(lambda self, ty, args, handlers, exc: exc_is(exc, TypeError) or exc_is(exc, UnsupportedAnnotation), ["C04"]))
