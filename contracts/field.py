# pane/field.py: derivation of input names and output name (C15, C05), renaming (C20)

SPEC("pane.field", "rename_field", trusted=True, result_kind="str",
     raises=(lambda field, style, exc: exc_is(exc, ValueError), ["C20"]),
     note="assumed here (contracted below at word level / bounded): deterministic; raises ValueError for names that cannot be split")


def renamed(name, style):
    return ret("pane.field:rename_field", name, style)


def std_out_name(name, out_rename):
    return ite(is_none(out_rename), name, renamed(name, out_rename))


def n_set(self):
    # how many of rename / aliases / in_names are given
    return ite(is_none(self.rename), 0, 1) + ite(is_none(self.aliases), 0, 1) + ite(is_none(self.in_names), 0, 1)


def std_in_name(name, in_rename, j):
    # the j-th standard input name: the class's input rename styles applied to the Python name, or the Python name itself
    return ite(is_none(in_rename), name, renamed(name, sat(as_seq(in_rename), j)))


def n_std_in(in_rename):
    return ite(is_none(in_rename), 1, slen(as_seq(in_rename)))


SPEC("pane.field", "FieldSpec.make_field",
     shapes={"in_rename": "seq", "self.aliases": "seq", "self.in_names": "seq", ".in_names": "seq"},
     ensures=[
         # output name: explicit out_name, else the field's rename, else the class output style applied to the Python name
         (lambda self, name, in_rename, out_rename, result: result.out_name == ite(
             not is_none(self.out_name), self.out_name, ite(not is_none(self.rename), self.rename, std_out_name(name, out_rename))), ["C15", "C05", "C20"], "out-name"),
         # input names
         (lambda self, name, in_rename, out_rename, result: implies(not is_none(self.rename),
                                                                    slen(as_seq(result.in_names)) == 1 and sat(as_seq(result.in_names), 0) == self.rename),
          ["C15"], "in-names-rename"),
         (lambda self, name, in_rename, out_rename, result: implies(is_none(self.rename) and is_none(self.aliases) and not is_none(self.in_names),
                                                                    result.in_names is self.in_names), ["C15"], "in-names-explicit"),
         (lambda self, name, in_rename, out_rename, result: implies(is_none(self.rename) and is_none(self.aliases) and is_none(self.in_names),
                                                                    slen(as_seq(result.in_names)) == n_std_in(in_rename)
                                                                    and forall(range(n_std_in(in_rename)), lambda j: sat(as_seq(result.in_names), j) == std_in_name(name, in_rename, j))),
          ["C15", "C05"], "in-names-standard"),
         # aliases are ADDITIONAL names: every standard input name stays an input name, and every alias is one
         (lambda self, name, in_rename, out_rename, result: implies(is_none(self.rename) and not is_none(self.aliases),
                                                                    forall(range(n_std_in(in_rename)), lambda j: exists(
                                                                        range(slen(as_seq(result.in_names))), lambda a: sat(as_seq(result.in_names), a) == std_in_name(name, in_rename, j)))
                                                                    and forall(range(slen(self.aliases)), lambda b: exists(
                                                                        range(slen(as_seq(result.in_names))), lambda a: sat(as_seq(result.in_names), a) == sat(self.aliases, b)))),
          ["C15", "C05"], "in-names-aliases"),
         # everything else is carried over unchanged
         (lambda self, name, in_rename, out_rename, result: result.name is name and result.init is self.init and result.exclude is self.exclude
          and result.repr is self.repr and result.hash is self.hash and result.compare is self.compare and result.default is self.default
          and result.default_factory is self.default_factory and result.kw_only is self.kw_only and result.converter is self.converter
          and result.type is ite(self.ty is MISSING, ANY, self.ty), ["C15", "C14", "C16", "C17"], "carry")],
     raises=(lambda self, name, in_rename, out_rename, exc: exc_is(exc, TypeError) or exc_is(exc, ValueError), ["C15", "C20"]))




# ---------------------------------------------------------------------------------------------
# C20: field renaming yields canonical, reversible names.   BOUNDED: these clauses are string-level and are decided only
# by exhaustive run-time evaluation over a finite domain of names (never counted as proved).
def is_snake_name(name):
    ws = name.split('_')
    return all(len(w) >= 2 and w.isalpha() and w.islower() for w in ws)


def canonical(name, style):
    ws = name.split('_')
    caps = [w[0].upper() + w[1:] for w in ws]
    return {'snake': '_'.join(ws), 'scream': '_'.join(w.upper() for w in ws), 'kebab': '-'.join(ws),
            'camel': ws[0] + ''.join(caps[1:]), 'pascal': ''.join(caps)}[style]


def unsplittable(name):
    # leading, trailing or doubled separators
    parts = name.replace('-', '_').split('_')
    return any(p == '' for p in parts)


SPEC("pane.field", "rename_field.bounded", bounded=True,
     requires=lambda field, style: is_snake_name(field) and not is_none(style),
     ensures=[(lambda field, style, result: result == canonical(field, style), ["C20"], "canonical"),
              (lambda field, style, result: ret("pane.field:rename_field", result, style) == result, ["C20"], "idempotent"),
              (lambda field, style, result: ret("pane.field:rename_field", result, "snake") == field, ["C20"], "reversible"),
              (lambda field, style, result: ret("pane.field:rename_field", ret("pane.field:rename_field", result, "pascal"), style) == result,
               ["C20"], "via-other-style")],
     no_raise=["C20"],
     note="bounded: all names of 1-3 words over a 4-word vocabulary x 5 styles")

SPEC("pane.field", "rename_field.refusal", bounded=True,
     requires=lambda field, style: unsplittable(field) and not is_none(style),
     returns_iff=(lambda field, style: False, ["C20"]),
     raises=(lambda field, style, exc: exc_is(exc, ValueError), ["C20"]),
     note="bounded: names with leading / trailing / doubled separators must be refused with ValueError")


SPEC("pane.field", "Field.has_default",
     shapes={"self": "rec:Field"},
     ensures=[(lambda self, result: truthy(result) == ((self.default is not MISSING) or (self.default_factory is not None)), ["C14", "C15"], "has-default"),
              (lambda self, result: isinstance(result, bool), ["C14"], "bool")],
     total=True, no_raise=["C14"])


# field(): the annotation record; `hash` defaults to `compare` (equal instances must hash equal, C16), everything else verbatim
SPEC("pane.field", "field",
     ensures=[(lambda rename, in_names, aliases, out_name, init, exclude, repr, hash, compare, default, default_factory, kw_only, converter, result:
               result.hash == ite(is_none(hash), compare, hash) and result.compare is compare, ["C16"], "hash-follows-compare"),
              (lambda rename, in_names, aliases, out_name, init, exclude, repr, hash, compare, default, default_factory, kw_only, converter, result:
               result.rename is rename and result.in_names is in_names and result.out_name is out_name and result.init is init
               and result.exclude is exclude and result.repr is repr and result.default is default and result.default_factory is default_factory
               and result.kw_only is kw_only and result.converter is converter, ["C14", "C15", "C16"], "verbatim")])
