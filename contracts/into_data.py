# Serialisation direction (C05, C06, C11, C12, C18): into_data of every converter class.
# ser(c, x) is the interface-level serialisation of x by converter c (IConv).  mkconv(ty, handlers) is the
# converter make_converter returns (its own contract is in convert.py).

def mkconv(ty, handlers):
    return ret_make_converter(ty, handlers)


def default_into_data(val):
    return ret_into_data(val)


# some key of mapping m satisfies f (natively decided by enumerating the keys of m)
def exists_key(m, f):
    return exists_val(lambda k_: mhas(m, k_) and f(k_))


# ---------------------------------------------------------------------------------------------
# UnionConverter.into_data: uses the FIRST member whose fast pass accepts the value (C11)
SPEC("pane.converters", "UnionConverter.into_data",
     shapes={"self.converters": "seq"},
     ensures=[(lambda self, val, result:
               (exists(range(slen(self.converters)),
                       lambda j: acc(sat(self.converters, j), val)
                       and forall(range(j), lambda k: not acc(sat(self.converters, k), val))
                       and result == ser(sat(self.converters, j), val)))
               or (forall(range(slen(self.converters)), lambda j: not acc(sat(self.converters, j), val))), ["C11", "C05", "C06"], "ser")],
     invariants={0: lambda it, self, val: forall(range(it), lambda j: not acc(sat(self.converters, j), val))})

# ---------------------------------------------------------------------------------------------
# SequenceConverter.into_data: element-wise, order preserved; elements typed Any are serialised by their runtime
# type WITH the handlers of this conversion (C18: handlers apply at every depth in both directions)
def seq_elem_ser(self, v):
    return ite(isinstance(self.v_conv, AnyConverter), ser(mkconv(typeof(v), self.handlers), v), ser(self.v_conv, v))


SPEC("pane.converters", "SequenceConverter.into_data",
     shapes={"val": "seq", "self.v_conv": "conv"},
     ensures=[(lambda self, val, result: slen(result) == slen(val)
               and forall(range(slen(val)), lambda j: sat(result, j) == seq_elem_ser(self, sat(val, j))), ["C05", "C06", "C18"], "ser"),
              (lambda self, val, result: ite(self.constructor is tuple, isinstance(result, tuple), isinstance(result, list)), ["C05"], "kind")])

# ---------------------------------------------------------------------------------------------
# DictConverter.into_data: key-wise / value-wise, Any-typed sides by runtime type with the handlers
def dict_key_ser(self, k):
    return ite(isinstance(self.k_conv, AnyConverter), ser(mkconv(typeof(k), self.handlers), k), ser(self.k_conv, k))


def dict_val_ser(self, v):
    return ite(isinstance(self.v_conv, AnyConverter), ser(mkconv(typeof(v), self.handlers), v), ser(self.v_conv, v))


SPEC("pane.converters", "DictConverter.into_data",
     shapes={"val": "map", "self.k_conv": "conv", "self.v_conv": "conv"},
     assumes=[lambda self, val: forall_val(lambda k: implies(mhas(val, k), hashable(dict_key_ser(self, k))))],
     note="assumed: serialised keys are hashable (interchange scalars)",
     ensures=[(lambda self, val, result: forall_val(lambda k: implies(mhas(val, k), mhas(result, dict_key_ser(self, k)))), ["C05", "C06", "C18"], "ser-keys"),
              (lambda self, val, result: forall_val(lambda k2: implies(mhas(result, k2),
                                                                      exists_key(val, lambda k: dict_key_ser(self, k) == k2
                                                                                 and mget(result, k2) == dict_val_ser(self, mget(val, k))))),
               ["C05", "C06", "C18"], "ser-values")])

# ---------------------------------------------------------------------------------------------
# StructConverter.into_data
def struct_elem_ser(self, k, v):
    return ite(mhas(self.fields, k) and not is_none(mget(self.fields, k)) and not is_any_type(mget(self.fields, k))
               and mhas(self.field_converters, k) and not is_none(mget(self.field_converters, k)),
               ser(mget(self.field_converters, k), v),
               ser(mkconv(typeof(v), self.handlers), v))


def is_any_type(ty):
    return ty is ANY or ty is typeof(ANY)


SPEC("pane.converters", "StructConverter.into_data",
     shapes={"val": "map", "self.fields": "map", "self.field_converters": "map"},
     requires=lambda self, val: is_data_map(val),
     ensures=[(lambda self, val, result: forall_val(lambda k: mhas(result, k) == mhas(val, k)), ["C05", "C06"], "ser-keys"),
              (lambda self, val, result: forall_val(lambda k: implies(mhas(val, k), mget(result, k) == struct_elem_ser(self, k, mget(val, k)))),
               ["C05", "C06", "C18"], "ser-values")],
     invariants={0: lambda it, d, self, val:
                 forall_val(lambda k: mhas(d, k) == (mhas(val, k) and idx_of(val, k) < it))
                 and forall_val(lambda k: implies(mhas(d, k), mget(d, k) == struct_elem_ser(self, k, mget(val, k))))})

# ---------------------------------------------------------------------------------------------
# EnumConverter / PatternConverter / DelegateConverter
SPEC("pane.converters", "EnumConverter.into_data",
     ensures=[(lambda self, val, result: implies(isinst_dyn(val, self.ty), result == attr(val, "value")), ["C05", "C06"], "ser")])

SPEC("pane.converters", "PatternConverter.into_data",
     requires=lambda self, val: isinstance(val, Pattern),
     ensures=[(lambda self, val, result: result == attr(val, "pattern"), ["C05", "C06"], "ser")])

SPEC("pane.converters", "DelegateConverter.into_data",
     shapes={"self.inner": "conv"},
     ensures=[(lambda self, val, result: result == ser(self.inner, val), ["C05", "C06"], "ser")])
