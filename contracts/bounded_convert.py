# C01 / C02 / C05, bounded: the scalar rows of the conversion table and the type spellings make_converter must accept.
# (The symbolic contracts treat the scalar table _BASIC_CONVERTERS as data; these run-time contracts decide its rows.)

def value_kind(v):
    for k in (bool, int, float, complex, str, bytes, bytearray, type(None), list, tuple, dict):
        if type(v) is k:
            return k
    return type(v)


# documented rule: a value is accepted by a scalar target iff its kind is the target's, or widens losslessly to it
# (bool -> int -> float -> complex; bytes <-> bytearray)
def scalar_accepts(target, v):
    k = value_kind(v)
    table = {bool: (bool,), int: (bool, int), float: (bool, int, float), complex: (bool, int, float, complex),
             str: (str,), bytes: (bytes, bytearray), bytearray: (bytes, bytearray), type(None): (type(None),)}
    for base, kinds in table.items():
        if issubclass(target, base):
            return k in kinds
    return False


SPEC("pane.convert", "scalar_rows.bounded", bounded=True,
     ensures=[(lambda target, value, result: (result[0] == "ok") == scalar_accepts(target, value), ["C01", "C02"], "verdict"),
              (lambda target, value, result: result[0] in ("ok", "ConvertError"), ["C04"], "only-convert-error"),
              (lambda target, value, result: implies(result[0] == "ok", type(result[1]) is target and result[1] == value), ["C01"], "exactly-typed-image"),
              # interchange scalars serialise to themselves: a bool stays a bool
              (lambda target, value, result: implies(result[0] == "ok" and target in (bool, int, float, str, type(None)),
                                                     type(result[2]) is target and result[2] == result[1]), ["C05"], "scalar-serialises-to-itself"),
              (lambda target, value, result: implies(result[0] == "ok", type(result[3]) is type(result[1]) and result[3] == result[1]), ["C05", "C06"], "round-trip")],
     note="bounded: scalar targets (and subclasses of str / int) x one value of every interchange kind, at top level, as a list element and as a dataclass field")

SPEC("pane.convert", "buildable.bounded", bounded=True,
     ensures=[(lambda ty, good, bad, result: result["built"], ["C01", "C04"], "converter-built"),
              (lambda ty, good, bad, result: all(result["accepts"]), ["C01"], "members-accepted"),
              (lambda ty, good, bad, result: not any(result["accepts_bad"]), ["C01", "C02"], "non-members-refused")],
     note="bounded: type spellings the documentation supports (mixed-value enums, PEP 604 unions, subclasses of basic types, ...)")


# ---- C05, bounded: from_data(into_data(x, T), T) == x for dataclass instances, over layouts / renaming / aliases ---------------
SPEC("pane.classes", "class_roundtrip.bounded", bounded=True,
     ensures=[(lambda obj, result: result[0] == "ok", ["C05"], "output-accepted-back"),
              # "modulo fields the user excluded": every non-excluded field comes back equal
              (lambda obj, result: implies(result[0] == "ok", type(result[1]) is type(obj) and all(
                  getattr(result[1], f.name) == getattr(obj, f.name) for f in obj.__pane_info__.fields if not f.exclude)), ["C05"], "round-trip"),
              (lambda obj, result: implies(result[0] == "ok", result[2] == result[3]), ["C05"], "serialise-again-same-data")],
     note="bounded: instances of the pool's dataclasses (struct / tuple layouts, rename styles, aliases, keyword-only and init=False fields)")

# ---- C06, bounded: typed values are fixed points of convert ------------------------------------------------------------------------
SPEC("pane.convert", "fixed_point.bounded", bounded=True,
     ensures=[(lambda value, ty, result: result[0] == "ok", ["C06"], "accepted"),
              (lambda value, ty, result: implies(result[0] == "ok", type(result[1]) is type(value) and result[1] == value), ["C06"], "same-value-same-type"),
              (lambda value, ty, result: implies(result[0] == "ok", type(result[2]) is type(value) and result[2] == value), ["C06"], "idempotent")],
     note="bounded: natively built typed values (Fraction, Decimal, datetime, path, pattern, set, deque, enum member, dataclass instances, "
          "helper types of pane.types), alone and nested in containers")
