# Generated dunder methods of pane dataclasses (closures in pane/classes.py): C16 value semantics, C14 construction.
# The closures' free variable `fields` is the (symbolic) tuple of Field records of the class.

CLOSURE_SHAPES = {"free:fields": "seq", "fields[]": "rec:Field", "field": "rec:Field", "f": "rec:Field", ".name": "str",
                  ".__dict__": "map"}


def fv(obj, fields, i):
    # value of the i-th field of obj
    return dynattr(obj, sat(fields, i).name)


def origin_of(obj):
    # the class "modulo generic parameters": a subscripted generic records its origin
    return ite(mhas(as_map(obj.__class__.__dict__), "__origin__"), mget(as_map(obj.__class__.__dict__), "__origin__"), obj.__class__)


def eq_fields(self, other, fields):
    return forall(range(slen(fields)), lambda i: implies(truthy(sat(fields, i).compare), fv(self, fields, i) == fv(other, fields, i)))


# ---- __eq__: same class (ignoring generic parameters) and pairwise equal compare-fields --------------------------
SPEC("pane.classes", "_make_eq.<locals>.__eq__",
     shapes=CLOSURE_SHAPES, preamble=True,
     ensures=[(lambda self, other, fields, result: truthy(result) == (origin_of(self) == origin_of(other) and eq_fields(self, other, fields)), ["C16"], "eq")],
     no_raise=["C16"])

# ---- ordering: lexicographic over the compare-fields, consistent with equality ---------------------------------------
def first_diff(self, other, fields, k):
    return (0 <= k and k < slen(fields) and truthy(sat(fields, k).compare) and fv(self, fields, k) != fv(other, fields, k)
            and forall(range(k), lambda j: implies(truthy(sat(fields, j).compare), fv(self, fields, j) == fv(other, fields, j))))


SPEC("pane.classes", "_make_ord.<locals>._pane_ord",
     shapes=CLOSURE_SHAPES, preamble=True,
     ensures=[(lambda self, other, fields, result: implies(self.__class__ != other.__class__, result is NotImplementedV), ["C16"], "ord-class"),
              (lambda self, other, fields, result: implies(self.__class__ == other.__class__,
                                                           (result == 0) == eq_fields(self, other, fields)), ["C16"], "ord-eq"),
              (lambda self, other, fields, result: implies(self.__class__ == other.__class__ and not eq_fields(self, other, fields),
                                                           exists(range(slen(fields)), lambda k: first_diff(self, other, fields, k)
                                                                  and result == ite(lt(fv(other, fields, k), fv(self, fields, k)), 1, -1))),
               ["C16"], "ord-lex")],
     no_raise=["C16"],
     invariants={0: lambda it, self, other, fields: forall(range(it), lambda j: implies(truthy(sat(fields, j).compare),
                                                                                     fv(self, fields, j) == fv(other, fields, j)))})

# ---- hash: the tuple of the hash-fields, in order -------------------------------------------------------------------------
SPEC("pane.classes", "_make_hash.<locals>.__hash__",
     shapes=CLOSURE_SHAPES, preamble=True,
     ensures=[(lambda self, fields, result: result == hash_of(kept_seq(
         "tuple", slen(fields), lambda i: sat(fields, i).hash, lambda i: dynattr(self, sat(fields, i).name))), ["C16"], "hash")])

# ---- the rule table (unsafe_hash, eq, frozen, explicit __hash__) -> action, as in the standard library ------------------
def std_hash_action(unsafe_hash, eq, frozen, explicit):
    # dataclasses documentation: unsafe_hash forces a hash (error if one is explicitly defined);
    # otherwise eq and frozen -> generate; eq and not frozen -> set to None; not eq -> leave alone
    return ite(unsafe_hash, ite(explicit, "raise", "make"),
               ite(eq, ite(explicit, "leave", ite(frozen, "make", "none")), "leave"))


def action_name(v):
    return ite(is_none(v), "leave", ite(v is fnref("pane.classes:_make_hash"), "make",
               ite(v is fnref("pane.classes:_set_hash_none"), "none", ite(v is fnref("pane.classes:_hash_exception"), "raise", "other"))))


TABLE("pane.classes", "_hash_action",
      ensures=[(lambda value: forall_bools4(lambda a, b, c, d: mhas(value, (a, b, c, d))
                                            and action_name(mget(value, (a, b, c, d))) == std_hash_action(a, b, c, d)), ["C16"], "table")])

# ---- from_dict_unchecked: fields verbatim, the set-field record replaced iff one is given (even an empty one) ---------
SPEC("pane.classes", "_make_init.<locals>.from_dict_unchecked",
     shapes={"set_fields": "set", "cls()": "new", "d": "map"},
     ensures=[(lambda cls, d, set_fields, result: result == call(cls, _pane_from_dict=d), ["C14"], "construct"),
              (lambda cls, d, set_fields, result, final_self: implies(not is_none(set_fields),
                                                                      forall_val(lambda k: shas(as_set(getattr(final_self, "__pane_set__")), k) == shas(set_fields, k))),
               ["C14", "C16"], "set-record")],
     frame=["C09"])


# ownership: the stored record is the instance's OWN set (copies / replacements built through here must not share the caller's set: a
# later assignment on the copy would add to the original's record). Object identity of `.copy()` results is not modelled by the symbolic
# engine (sets are extensional values there), so this clause is bounded: run time only, never counted as proved
SPEC("pane.classes", "_make_init.<locals>.from_dict_unchecked.own.bounded", bounded=True,
     ensures=[(lambda cls, d, set_fields, result: set_fields is None or (getattr(result, "__pane_set__") is not set_fields
                                                                        and getattr(result, "__pane_set__") == set_fields), ["C14", "C16"], "set-record-own")],
     note="bounded: identity (non-aliasing) of the stored set-field record, every pool class x four set-field records")


# ---------------------------------------------------------------------------------------------
# generated __init__ (C14): construction is conversion; defaults; the set-field record; the hook runs last
INIT_SHAPES = {"free:sig": "", "kwargs": "map", "from_dict": "map", "args": "seq", ".arguments": "map", "bound_args": "map",
               "self.__pane_info__.fields": "seq", "self.__pane_info__.fields[]": "rec:Field", "f": "rec:Field", ".name": "str",
               ".bind()": "rec"}


def init_fields(self):
    return self.__pane_info__.fields


def wf_init(self):
    # field names are distinct strings (established by _process: specs is a dict keyed by name)
    return (forall(range(slen(init_fields(self))), lambda i: forall(range(slen(init_fields(self))), lambda j:
                   implies(sat(init_fields(self), i).name == sat(init_fields(self), j).name, i == j)))
            and forall(range(slen(init_fields(self))), lambda i: isinstance(sat(init_fields(self), i).name, str)
                       and sat(init_fields(self), i).name != "__pane_set__"))


def bound_arguments(sig, args, kwargs_rest):
    return as_map(attr(methv("bind", sig, args, kwargs_rest), "arguments"))


def expected_field_value(self, BA, checked, i):
    f = sat(init_fields(self), i)
    return ite(mhas(BA, f.name),
               ite(truthy(checked), ret("pane.convert:convert", mget(BA, f.name), f.type, None), mget(BA, f.name)),
               ite(f.default is not MISSING, f.default, call(f.default_factory)))


SPEC("pane.classes", "_make_init.<locals>.__init__",
     shapes=INIT_SHAPES, mutable=["self"],
     requires=lambda self, args, kwargs, sig: wf_init(self),
     ensures=[
         # mapping path (_pane_from_dict): every item stored verbatim, the record is the key set
         (lambda self, args, kwargs, sig: implies(
             mhas(kwargs, "_pane_from_dict") and not is_none(mget(kwargs, "_pane_from_dict")),
             forall_val(lambda k: implies(mhas(as_map(mget(kwargs, "_pane_from_dict")), k) and k != "__pane_set__",
                                          getattr(self, k) == mget(as_map(mget(kwargs, "_pane_from_dict")), k)))
             and forall_val(lambda k: shas(as_set(getattr(self, "__pane_set__")), k) == mhas(as_map(mget(kwargs, "_pane_from_dict")), k))),
          ["C14"], "from-dict"),
         # constructor path: converted (or verbatim when unchecked) arguments, defaults, fresh factory products
         (lambda self, args, kwargs, sig, final_bound_args, final_checked: forall(
             range(slen(init_fields(self))),
             lambda i: implies(truthy(sat(init_fields(self), i).init),
                               getattr(self, sat(init_fields(self), i).name) == expected_field_value(self, final_bound_args, final_checked, i))),
          ["C14", "C06"], "fields"),
         # the record of explicitly set fields is exactly the supplied ones
         (lambda self, args, kwargs, sig, final_bound_args: forall(
             range(slen(init_fields(self))),
             lambda i: implies(truthy(sat(init_fields(self), i).init),
                               shas(as_set(getattr(self, "__pane_set__")), sat(init_fields(self), i).name)
                               == mhas(final_bound_args, sat(init_fields(self), i).name)))
          and forall_val(lambda n: implies(shas(as_set(getattr(self, "__pane_set__")), n),
                                           exists(range(slen(init_fields(self))), lambda i: sat(init_fields(self), i).name == n))),
          ["C14"], "set-record"),
         # __post_init__ runs exactly once for every instance created
         (lambda self, args, kwargs, sig: implies(has_attr(self, "__post_init__"), called(attr(self, "__post_init__")) == 1), ["C14"], "hook")],
     # the hook is handed a complete instance: the set-field record exists when __post_init__ runs (PaneBase.__setattr__ inside
     # the hook records into it), on the mapping path and on the constructor path alike
     at_calls={"getattr(self, POST_INIT)": (lambda self: has_attr(self, "__pane_set__"), ["C14", "C03"])},
     invariants={
         0: lambda it, self, from_dict: forall(range(it), lambda j: getattr(self, key_at(from_dict, j)) == mget(from_dict, key_at(from_dict, j))),
         1: lambda it, self, bound_args, checked, set_fields:
         forall(range(it), lambda i: implies(truthy(sat(init_fields(self), i).init),
                                             getattr(self, sat(init_fields(self), i).name) == expected_field_value(self, bound_args, checked, i)))
         and forall(range(slen(init_fields(self))), lambda i: shas(set_fields, sat(init_fields(self), i).name) ==
                    (i < it and truthy(sat(init_fields(self), i).init) and mhas(bound_args, sat(init_fields(self), i).name)))
         and forall_val(lambda n: implies(shas(set_fields, n), exists(range(slen(init_fields(self))), lambda i: sat(init_fields(self), i).name == n)))})


# ---- _maybe_make_hash applies the table entry: "none" really sets __hash__ to None (a mutable class with value equality is
# unhashable), "make" installs the generated hash, "leave" touches nothing, "raise" refuses the class --------------------------
def explicit_hash(cls):
    return not ((not mhas(old(cls.__dict__), "__hash__"))
                or (is_none(mget(old(cls.__dict__), "__hash__")) and mhas(old(cls.__dict__), "__eq__")))


def hash_rule(cls):
    return std_hash_action(truthy(cls.__pane_info__.opts.unsafe_hash), truthy(cls.__pane_info__.opts.eq),
                           truthy(cls.__pane_info__.opts.frozen), explicit_hash(cls))


SPEC("pane.classes", "_maybe_make_hash",
     shapes={**CLOSURE_SHAPES, "cls.__dict__": "map", "$_hash_action": "table", "opts": "rec:PaneOptions"}, mutable=["cls"], uses_old=True,
     note="assumed: the module-level rule table _hash_action is never modified after import (its literal is read each run)",
     requires=lambda cls, fields: not mhas(cls.__dict__, "__hash__") or not (mget(cls.__dict__, "__hash__") is MISSING),
     returns_iff=(lambda cls, fields: hash_rule(cls) != "raise", ["C16"]),
     ensures=[(lambda cls, fields: implies(hash_rule(cls) == "none", is_none(getattr(cls, "__hash__"))), ["C16"], "unhashable"),
              # the installed function is the generated hash (proved above for ANY field list) closed over THIS field list
              (lambda cls, fields: implies(hash_rule(cls) == "make",
                                           closure_of(getattr(cls, "__hash__")) == "pane.classes:_make_hash.<locals>.__hash__"
                                           and closure_free(getattr(cls, "__hash__"), "fields") is fields), ["C16"], "generated")],
     raises=(lambda cls, fields, exc: exc_is(exc, TypeError), ["C16"]))


# ---- rich comparisons are the sign of _pane_ord (so <, ==, > are mutually exclusive and exhaustive on comparable instances) -------
SPEC("pane.classes", "_make_ord.<locals>.__lt__", shapes=CLOSURE_SHAPES, preamble=True,
     ensures=[(lambda self, other, _pane_ord, result: result == ite(_pane_ord(self, other) is NotImplementedV, NotImplementedV, lt(_pane_ord(self, other), 0)),
               ["C16"], "sign")], no_raise=["C16"])
SPEC("pane.classes", "_make_ord.<locals>.__le__", shapes=CLOSURE_SHAPES, preamble=True,
     ensures=[(lambda self, other, _pane_ord, result: result == ite(_pane_ord(self, other) is NotImplementedV, NotImplementedV,
                                                                    lt(_pane_ord(self, other), 0) or _pane_ord(self, other) == 0),
               ["C16"], "sign")], no_raise=["C16"])
SPEC("pane.classes", "_make_ord.<locals>.__gt__", shapes=CLOSURE_SHAPES, preamble=True,
     ensures=[(lambda self, other, _pane_ord, result: result == ite(_pane_ord(self, other) is NotImplementedV, NotImplementedV, lt(0, _pane_ord(self, other))),
               ["C16"], "sign")], no_raise=["C16"])
SPEC("pane.classes", "_make_ord.<locals>.__ge__", shapes=CLOSURE_SHAPES, preamble=True,
     ensures=[(lambda self, other, _pane_ord, result: result == ite(_pane_ord(self, other) is NotImplementedV, NotImplementedV,
                                                                    lt(0, _pane_ord(self, other)) or _pane_ord(self, other) == 0),
               ["C16"], "sign")], no_raise=["C16"])


# ---- make_unchecked: the constructor with conversion switched off (arguments stored verbatim, C14) -----------------------------
SPEC("pane.classes", "_make_init.<locals>.make_unchecked",
     shapes={"args": "seq", "kwargs": "map"},
     ensures=[(lambda cls, args, kwargs, result: result == callv(cls, args, kwargs, _pane_checked=False), ["C14"], "unchecked-constructor")])
