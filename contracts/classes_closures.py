# Generated dunder methods of pane dataclasses (closures in pane/classes.py): C16 value semantics, C14 construction.
# The closures' free variable `fields` is the (symbolic) tuple of Field records of the class.

CLOSURE_SHAPES = {"free:fields": "seq", "fields[]": "rec:Field", "field": "rec:Field", "f": "rec:Field", ".name": "str",
                  ".__dict__": "map"}


def fv(obj, fields, i):
    # value of the i-th field of obj
    return dynattr(obj, sat(fields, i).name)


def origin_of(obj):
    # the class "modulo generic parameters": a subscripted generic records its origin
    return ite(mhas(as_map(obj.__class__.__dict__), "__origin__"), mget(as_map(obj.__class__.__dict__), "__origin__"), obj.__class__)


def eq_fields(self, other, fields):
    return forall(range(slen(fields)), lambda i: implies(truthy(sat(fields, i).compare), fv(self, fields, i) == fv(other, fields, i)))


# ---- __eq__: same class (ignoring generic parameters) and pairwise equal compare-fields --------------------------
SPEC("pane.classes", "_make_eq.<locals>.__eq__",
     shapes=CLOSURE_SHAPES, preamble=True,
     ensures=[(lambda self, other, fields, result: truthy(result) == (origin_of(self) == origin_of(other) and eq_fields(self, other, fields)), ["C16"], "eq")],
     no_raise=["C16"])

# ---- ordering: lexicographic over the compare-fields, consistent with equality ---------------------------------------
def first_diff(self, other, fields, k):
    return (0 <= k and k < slen(fields) and truthy(sat(fields, k).compare) and fv(self, fields, k) != fv(other, fields, k)
            and forall(range(k), lambda j: implies(truthy(sat(fields, j).compare), fv(self, fields, j) == fv(other, fields, j))))


SPEC("pane.classes", "_make_ord.<locals>._pane_ord",
     shapes=CLOSURE_SHAPES, preamble=True,
     ensures=[(lambda self, other, fields, result: implies(self.__class__ != other.__class__, result is NotImplementedV), ["C16"], "ord-class"),
              (lambda self, other, fields, result: implies(self.__class__ == other.__class__,
                                                           (result == 0) == eq_fields(self, other, fields)), ["C16"], "ord-eq"),
              (lambda self, other, fields, result: implies(self.__class__ == other.__class__ and not eq_fields(self, other, fields),
                                                           exists(range(slen(fields)), lambda k: first_diff(self, other, fields, k)
                                                                  and result == ite(lt(fv(other, fields, k), fv(self, fields, k)), 1, -1))),
               ["C16"], "ord-lex")],
     no_raise=["C16"],
     invariants={0: lambda it, self, other, fields: forall(range(it), lambda j: implies(truthy(sat(fields, j).compare),
                                                                                     fv(self, fields, j) == fv(other, fields, j)))})

# ---- hash: the tuple of the hash-fields, in order -------------------------------------------------------------------------
SPEC("pane.classes", "_make_hash.<locals>.__hash__",
     shapes=CLOSURE_SHAPES, preamble=True,
     ensures=[(lambda self, fields, result: exists_val(lambda T: result == hash_of(T) and isinstance(T, tuple)
                                                       and slen(T) == count_where(slen(fields), lambda i: sat(fields, i).hash)
                                                       and forall(range(slen(T)), lambda j: sat(T, j) == fv(self, fields, nth_where(
                                                           slen(fields), lambda i: sat(fields, i).hash, j)))), ["C16"], "hash")])

# ---- the rule table (unsafe_hash, eq, frozen, explicit __hash__) -> action, as in the standard library ------------------
def std_hash_action(unsafe_hash, eq, frozen, explicit):
    # dataclasses documentation: unsafe_hash forces a hash (error if one is explicitly defined);
    # otherwise eq and frozen -> generate; eq and not frozen -> set to None; not eq -> leave alone
    return ite(unsafe_hash, ite(explicit, "raise", "make"),
               ite(eq, ite(explicit, "leave", ite(frozen, "make", "none")), "leave"))


def action_name(v):
    return ite(is_none(v), "leave", ite(v is fnref("pane.classes:_make_hash"), "make",
               ite(v is fnref("pane.classes:_set_hash_none"), "none", ite(v is fnref("pane.classes:_hash_exception"), "raise", "other"))))


TABLE("pane.classes", "_hash_action",
      ensures=[(lambda value: forall_bools4(lambda a, b, c, d: mhas(value, (a, b, c, d))
                                            and action_name(mget(value, (a, b, c, d))) == std_hash_action(a, b, c, d)), ["C16"], "table")])

# ---- from_dict_unchecked: fields verbatim, the set-field record replaced iff one is given (even an empty one) ---------
SPEC("pane.classes", "_make_init.<locals>.from_dict_unchecked",
     shapes={"set_fields": "set", "cls()": "new", "d": "map"},
     ensures=[(lambda cls, d, set_fields, result: result == call(cls, _pane_from_dict=d), ["C14"], "construct"),
              (lambda cls, d, set_fields, result, final_self: implies(not is_none(set_fields),
                                                                      forall_val(lambda k: shas(as_set(getattr(final_self, "__pane_set__")), k) == shas(set_fields, k))),
               ["C14", "C16"], "set-record")],
     frame=["C09"])
