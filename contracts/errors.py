# pane/errors.py (C08): rendering an error tree never raises (totality, proved here) and names every part (containment:
# string-level, BOUNDED run-time contract below).

ERR_SHAPES = {"self.children": "map", "self.missing": "set", "self.extra": "set", "self.aliases": "seq", "self.expected_len": "seq",
              "child.children": "map", "child.missing": "set", "child.extra": "set", "self.children[]": "rec", "file": ""}


def wf_leaf_cause(self):
    # `cause` is None or a traceback.TracebackException (that is what every converter stores there)
    return is_none(self.cause) or isinstance(self.cause, TracebackException)


SPEC("pane.errors", "WrongTypeError.print_error", shapes=ERR_SHAPES,
     requires=lambda self, indent, inside_sum, file: wf_leaf_cause(self),
     no_raise=["C08"], total=True)

SPEC("pane.errors", "WrongLenError.print_error", shapes=ERR_SHAPES, no_raise=["C08"], total=True)

SPEC("pane.errors", "ConditionFailedError.print_error", shapes=ERR_SHAPES,
     requires=lambda self, indent, inside_sum, file: wf_leaf_cause(self),
     no_raise=["C08"], total=True)

# a duplicate-key node only ever sits directly under a product node, which renders its children with inside_sum=False
SPEC("pane.errors", "DuplicateKeyError.print_error", shapes=ERR_SHAPES,
     requires=lambda self, indent, inside_sum, file: not truthy(inside_sum),
     no_raise=["C08"], total=True)

SPEC("pane.errors", "ErrorNode.__str__", shapes=dict(ERR_SHAPES, **{"StringIO": "total", "StringIO()": "rec:StringIO"}),
     requires=lambda self: isinstance(self, ErrorNode) and not isinstance(self, DuplicateKeyError),
     note="io.StringIO() assumed not to raise",
     no_raise=["C08"])


SPEC("pane.errors", "SumErrorNode.print_error.<locals>._flatten_sum", trusted=True, total=True, result_kind="seq",
     ensures=[(lambda children, result: forall(range(slen(result)), lambda j: isinstance(sat(result, j), ErrorNode)
                                                and not isinstance(sat(result, j), DuplicateKeyError)), ["C08"], "no-duplicate-nodes")],
     note="assumed (generator function, outside the interpreted subset): yields the members of nested sums in order; a sum's members are trees "
          "reported by converters (IConv), never bare DuplicateKeyError nodes")

SPEC("pane.errors", "SumErrorNode.print_error", shapes=dict(ERR_SHAPES, **{"self.children": "seq"}),
     no_raise=["C08"], total=True,
     invariants={0: lambda it: True})          # the printing loop carries no state the proof needs (declared, so that it is not "a loop without invariant")


def wf_trees():
    # shape invariant of error trees (delivered by the #tree clauses of the converters): the children of a product node are error nodes
    return forall_val(lambda n: forall_val(lambda k: implies(isinstance(n, ProductErrorNode) and mhas(as_map(n.children), k),
                                                             isinstance(mget(as_map(n.children), k), ErrorNode))))


SPEC("pane.errors", "ProductErrorNode.print_error", shapes=ERR_SHAPES,
     requires=[lambda self, indent, inside_sum, file: isinstance(self, ProductErrorNode)],
     assumes=[lambda self, indent, inside_sum, file: wf_trees()],
     note="assumed: children of product nodes are error nodes (tree shape delivered by the converters' #tree clauses); termination of the "
          "chain-fusing while loop is NOT proved (the variant obligation over the dict comprehension is outside the solver's array fragment): trees are finite",
     no_raise=["C08"], total=True,
     invariants={0: lambda it, self: isinstance(self, ProductErrorNode)
                 and forall_val(lambda k: implies(mhas(as_map(self.children), k), isinstance(mget(as_map(self.children), k), ErrorNode))),
                 # the three printing loops carry no state the proof needs
                 1: lambda it: True, 2: lambda it: True, 3: lambda it: True})


# ---------------------------------------------------------------------------------------------
# BOUNDED (run-time only): completeness of the rendered text, on every error tree the witness pool produces
def leaf_paths(node, prefix=()):
    # (path components, leaf) for every leaf below node; sums are transparent (their members share the path)
    import pane.errors as E
    if isinstance(node, E.ProductErrorNode):
        out = []
        for k, c in node.children.items():
            out += leaf_paths(c, prefix + (str(k),))
        return out
    if isinstance(node, E.SumErrorNode):
        out = []
        for c in node.children:
            out += leaf_paths(c, prefix)
        return out
    return [(prefix, node)]


def contains_in_order(text, parts):
    pos = 0
    for p in parts:
        i = text.find(p, pos)
        if i < 0:
            return False
        pos = i + len(p)
    return True


def product_nodes(node):
    import pane.errors as E
    if isinstance(node, E.ProductErrorNode):
        out = [node]
        for c in node.children.values():
            out += product_nodes(c)
        return out
    if isinstance(node, E.SumErrorNode):
        out = []
        for c in node.children:
            out += product_nodes(c)
        return out
    return []


def cause_text(leaf):
    c = getattr(leaf, "cause", None)
    return None if c is None else "".join(c.format_exception_only()).strip().splitlines()[-1]


SPEC("pane.errors", "render.bounded", bounded=True,
     ensures=[(lambda tree, result: all(contains_in_order(result, path) for path, _leaf in leaf_paths(tree)), ["C08"], "path-components"),
              (lambda tree, result: all(str(getattr(leaf, "expected", getattr(leaf, "key", ""))) in result for _p, leaf in leaf_paths(tree)), ["C08"], "leaf-expectation"),
              (lambda tree, result: all(all(str(m if isinstance(m, str) else "/".join(m)) in result for m in n.missing)
                                        and all(str(x) in result for x in n.extra) for n in product_nodes(tree)), ["C08"], "missing-and-extra"),
              (lambda tree, result: all(cause_text(leaf) is None or cause_text(leaf) in result for _p, leaf in leaf_paths(tree)), ["C08"], "cause-message"),
              (lambda tree, result: all(not hasattr(leaf, "actual") or (str(leaf.actual) in result) or in_sum(tree, leaf) for _p, leaf in leaf_paths(tree)),
               ["C08"], "offending-value"),
              # a union prints the offending value once, for the whole union - the value its (possibly nested) alternatives refused
              (lambda tree, result: all(sum_actual(n) is NOVAL or ("Instead got `" + str(sum_actual(n)) + "`") in result for n in outer_sums(tree)),
               ["C08"], "sum-offending-value"),
              (lambda tree, result: result == str(tree), ["C08"], "deterministic")],
     no_raise=["C08"],
     note="bounded: every error tree produced by the pool's converters on the pool's values")

NOVAL = ("no value",)


def sum_actual(n):
    """the offending value a sum node stands for: that of its first alternative that carries one (alternatives that are sums are searched)"""
    import pane.errors as E
    for c in n.children:
        if isinstance(c, E.SumErrorNode):
            v = sum_actual(c)
            if v is not NOVAL:
                return v
        elif hasattr(c, "actual"):
            return c.actual
    return NOVAL


def outer_sums(node, inside=False):
    import pane.errors as E
    if isinstance(node, E.SumErrorNode):
        out = [] if inside else [node]
        for c in node.children:
            out += outer_sums(c, True)
        return out
    if isinstance(node, E.ProductErrorNode):
        out = []
        for c in node.children.values():
            out += outer_sums(c, False)
        return out
    return []


def in_sum(tree, leaf):
    # inside a sum the offending value is printed once for the whole sum ("Instead got ...")
    import pane.errors as E

    def rec(n, inside):
        if n is leaf:
            return inside
        if isinstance(n, E.ProductErrorNode):
            return any(rec(c, False) for c in n.children.values())
        if isinstance(n, E.SumErrorNode):
            return any(rec(c, True) for c in n.children)
        return False
    return rec(tree, False)
