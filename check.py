#!/usr/bin/env python3
"""check.py <PROPERTY-ID> [--tier quick|thorough] [--repo /repo] | --replay <file>

Decides one given property by discharging, with pvc (ast -> symbolic execution -> z3), every contract
obligation that serves it, on /repo's CURRENT working tree.

exit 0  every obligation discharged (listed known findings are printed as KNOWN-FINDING lines)
exit 1  VIOLATION property=<id> replay=<path>      (an obligation serving the property fails)
exit 2  undecided (solver timeout / function left the interpreted subset) and nothing refuted
exit 3  checker error
"""
from __future__ import annotations
import argparse
import hashlib
import json
import os
import subprocess
import sys
import time
import traceback

HERE = os.path.dirname(os.path.abspath(__file__))
sys.path.insert(0, HERE)

GENERIC_ASSUMPTIONS = [
    "A-induction: per-class obligations are lifted to all types of any nesting depth by structural induction over the converter tree (standard soundness argument of modular verification; not mechanised)",
    "A-iconv: converters reached through the Converter interface (children, user-written, handler-returned) satisfy IConv: try_convert/collect_errors/into_data are deterministic functions of (converter, value), raise only ParseInterrupt / nothing, do not mutate their argument",
    "A-user: user callables (target constructors, condition predicates, default factories, __post_init__) are deterministic and do not mutate their arguments; they may return anything or raise any Exception subclass",
    "A-eq: Python == / `is` on values is modelled as identity of abstract values (cross-kind numeric equality 1 == 1.0 == True is not modelled)",
    "A-kinds: the interchange kind partition is disjoint beyond CPython lay-out conflicts (no class that is both a Sequence and a Mapping, ...); class lattice, hashability and guaranteed attributes are read from the real classes under /venv/bin/python on every run",
    "A-int: integers are mathematical (exact for Python); floats are not interpreted",
    "A-exc: BaseExceptions that are not Exceptions (KeyboardInterrupt), MemoryError and RecursionError are not modelled",
    "A-stdlib: assumed contracts of builtins: dict/set lookups raise KeyError when absent and TypeError on unhashable keys; re.compile returns or raises some Exception; fromisoformat raises only ValueError on str; traceback.TracebackException, str(), repr(), f-strings do not raise; tuple/list/set/dict constructors consume the whole iterable left to right",
    "A-seq: single-threaded, no monkey-patching (names mean what the source binds them to)",
]


def load_json(path, default):
    try:
        with open(path) as f:
            return json.load(f)
    except FileNotFoundError:
        return default


def finding_matches(f, prop, ob):
    if f.get('status', 'open') != 'open':
        return False
    if f['property'] != prop or f['func'] != ob['func'] or f['kind'] != ob['kind']:
        return False
    return f.get('origin_contains', '') in ob['origin']


def write_replay(prop, ob, repo, native_result):
    """Standalone replay file: names the failed obligation, carries the verifier's output and (when the
    native search found one) the concrete failing input."""
    rdir = os.path.join(HERE, 'replays')
    os.makedirs(rdir, exist_ok=True)
    h = hashlib.sha1((ob['id'] + ob['origin']).encode()).hexdigest()[:10]
    path = os.path.join(rdir, f"{prop}_{h}.json")
    with open(path, 'w') as f:
        json.dump({'property': prop, 'obligation': ob['id'], 'func': ob['func'], 'clause': ob['kind'],
                   'origin': ob['origin'], 'verdict': ob['verdict'], 'backend': ob['backend'], 'solver_reason': ob['reason'],
                   'solver_model': ob['model'], 'repo': repo, 'native': native_result}, f, indent=1)
    return path


def native_replay(repo, func, kind, seed, budget_s=60):
    """Evaluate the same sidecar clause at run time on the real function over the witness pool
    (under the repository's interpreter).  Returns dict or None."""
    runner = os.path.join(HERE, 'native', 'runner.py')
    if not os.path.exists(runner):
        return None
    try:
        p = subprocess.run(['/venv/bin/python', runner, '--repo', repo, '--func', func, '--clause', kind, '--seed', str(seed),
                            '--first'], capture_output=True, text=True, timeout=budget_s,
                           env={**os.environ, 'PYTHONPATH': repo, 'PYTHONDONTWRITEBYTECODE': '1', 'PYTHONHASHSEED': '0'})
        for line in p.stdout.splitlines():
            if line.startswith('NATIVE-RESULT '):
                return json.loads(line[len('NATIVE-RESULT '):])
        return {'status': 'no-result', 'stderr': p.stderr[-800:]}
    except subprocess.TimeoutExpired:
        return {'status': 'timeout'}
    except Exception as e:
        return {'status': 'error', 'error': str(e)}


def native_sweep(repo, funcs, seed, budget_s=300):
    """Run-time evaluation of every clause of the given functions on the whole witness pool."""
    runner = os.path.join(HERE, 'native', 'runner.py')
    try:
        p = subprocess.run(['/venv/bin/python', runner, '--repo', repo, '--funcs', ','.join(funcs), '--seed', str(seed)],
                           capture_output=True, text=True, timeout=budget_s,
                           env={**os.environ, 'PYTHONPATH': repo, 'PYTHONDONTWRITEBYTECODE': '1', 'PYTHONHASHSEED': '0'})
        for line in p.stdout.splitlines():
            if line.startswith('NATIVE-RESULT '):
                return json.loads(line[len('NATIVE-RESULT '):])
        return {'status': 'no-result', 'stderr': p.stderr[-1500:]}
    except subprocess.TimeoutExpired:
        return {'status': 'timeout'}
    except Exception as e:
        return {'status': 'error', 'error': str(e)}


def clause_props(side, func, kind):
    con = side.contracts.get(func)
    if con is None:
        return []
    if kind == 'frame':
        return con.frame
    if kind == 'acc' and con.returns_iff:
        return con.returns_iff[1]
    if kind == 'exc':
        return (con.raises[1] if con.raises else []) + (con.no_raise or [])
    ps = []
    for _l, p, k in con.ensures:
        if k == kind:
            ps += p
    return ps


def run_seeded_faults(prop):
    """Apply every seeded change recorded for this property to a scratch copy of /repo/pane (outside /repo and /verif,
    removed at once) and run this same check on it. Reported in the evidence; does not change this run's verdict."""
    import glob
    import shutil
    import tempfile
    out = []
    cases = []
    for d in sorted(glob.glob(os.path.join(HERE, 'seeded', '*'))):
        try:
            meta = json.load(open(os.path.join(d, 'meta.json')))
        except Exception:
            continue
        if meta.get('property') != prop or meta.get('obsolete_after_fix'):
            continue
        patch = os.path.join(d, 'patch_rebased.diff') if os.path.exists(os.path.join(d, 'patch_rebased.diff')) else os.path.join(d, 'patch.diff')
        cases.append((os.path.basename(d), patch, meta.get('summary', '')))
    for pth in sorted(glob.glob(os.path.join(HERE, 'mutants', '*.patch'))):
        meta = load_json(pth[:-6] + '.json', {})
        if (meta.get('breaks') or [None])[0] == prop:
            cases.append((os.path.basename(pth)[:-6], pth, meta.get('note', '')))
    cap = int(os.environ.get('PVC_MAX_SEEDED', '10') or 10)
    skipped = []
    if len(cases) > cap:
        # bounded cost: a window of `cap` changes, rotated by the run's seed so that successive thorough runs cover all of them
        k0 = (int(os.environ.get('VERIF_SEED', '0') or 0) * cap) % len(cases)
        rot = cases[k0:] + cases[:k0]
        cases, skipped = rot[:cap], [c[0] for c in rot[cap:]]
    for name in skipped:
        out.append({'change': name, 'result': 'not run in this window (PVC_MAX_SEEDED)'})
    for name, patch, summary in cases:
        d = tempfile.mkdtemp(prefix='pvc_seed_')
        evd = tempfile.mkdtemp(prefix='pvc_ev_')
        try:
            shutil.copytree('/repo/pane', os.path.join(d, 'pane'))
            p = subprocess.run(['patch', '-p1', '-s', '-i', patch], cwd=d, capture_output=True, text=True)
            if p.returncode != 0:
                out.append({'change': name, 'result': 'patch does not apply to the current tree'})
                continue
            r = subprocess.run([sys.executable, os.path.join(HERE, 'check.py'), prop, '--tier', 'quick', '--repo', d],
                               capture_output=True, text=True, cwd=HERE,
                               env={**os.environ, 'PVC_EVIDENCE_DIR': evd, 'PVC_NO_MUTANTS': '1',
                                    # runs against CHANGED copies may reuse results of functions whose text and context are unchanged
                                    'PVC_CACHE': os.environ.get('PVC_CACHE', os.path.join(HERE, '.cache', 'pvc'))})
            failed = [l.strip()[len('failed obligation '):].split(':')[0] + ':' + l.strip()[len('failed obligation '):].split(':')[1]
                      for l in r.stdout.splitlines() if l.strip().startswith('failed obligation')][:3]
            out.append({'change': name, 'summary': summary[:160], 'result': {0: 'SURVIVED', 1: 'detected', 2: 'undecided', 3: 'checker-error'}.get(r.returncode, str(r.returncode)),
                        'failed_obligations': failed})
            if r.returncode == 0:
                print(f'WARNING seeded change {name} survives the {prop} check')
        finally:
            shutil.rmtree(d, ignore_errors=True)
            shutil.rmtree(evd, ignore_errors=True)
    return out


def do_replay(path):
    d = load_json(path, None)
    if d is None:
        print(f'cannot read {path}')
        return 3
    print(f"replaying obligation {d['obligation']} ({d['origin']})")
    nat = d.get('native') or {}
    if nat.get('status') == 'violated':
        r = native_replay(d.get('repo', '/repo'), d['func'], d['clause'], 0)
        print(json.dumps(r, indent=1)[:3000])
        if r and r.get('status') == 'violated':
            print(f"VIOLATION property={d['property']} replay={path}")
            return 1
        return 0
    print('no concrete failing input was found when this file was written; verifier output follows')
    print(d.get('solver_reason'))
    print((d.get('solver_model') or '')[:3000])
    return 0


def main():
    ap = argparse.ArgumentParser()
    ap.add_argument('prop', nargs='?')
    ap.add_argument('--tier', default=os.environ.get('VERIF_TIER', 'quick'))
    ap.add_argument('--repo', default='/repo')
    ap.add_argument('--replay')
    ap.add_argument('--no-native', action='store_true')
    a = ap.parse_args()
    if a.replay:
        return do_replay(a.replay)
    if not a.prop:
        ap.error('property id required')
    prop = a.prop
    tier = a.tier if a.tier in ('quick', 'thorough') else 'quick'
    seed = int(os.environ.get('VERIF_SEED', '0') or 0)
    t0 = time.time()
    from pvc.run import run, augment
    from pvc.engine import Sidecar
    from pvc.repoindex import RepoIndex
    cdir = os.path.join(HERE, 'contracts')
    try:
        side = augment(Sidecar(cdir), RepoIndex(a.repo))
    except Exception:
        side = Sidecar(cdir)
    timeout_ms = 10000 if tier == 'quick' else 30000
    second_ms = 20000 if tier == 'quick' else 60000
    try:
        results = run(a.repo, cdir, props=[prop], timeout_ms=timeout_ms, second_ms=second_ms, cross=(tier == 'thorough'))
    except Exception:
        traceback.print_exc()
        return 3
    bounded_keys = [k for k, con in side.contracts.items() if con.bounded and prop in con.all_props()]
    findings = load_json(os.path.join(HERE, 'known_findings.json'), {'findings': []})['findings']
    obs, funcs, errors, oos = [], [], [], []
    for r in results:
        funcs.append({'function': r['key'], 'lines': r.get('lines'), 'sha256_16': r.get('sha'), 'paths': r.get('paths'),
                      'status': r['status'], 'exec_s': round(r.get('exec_s', 0), 3), 'contract_file': r.get('file')})
        if r['status'] == 'error' or r['status'] == 'missing':
            errors.append(r)
        elif r['status'] == 'out_of_subset':
            oos.append(r)
        for o in r['obligations']:
            if prop in o['props']:
                obs.append(o)
    if errors:
        for r in errors:
            print(f"CHECKER-ERROR {r['key']}: {r.get('error', '')[-600:]}")
    # ---- classify ---------------------------------------------------------------------------------
    discharged = [o for o in obs if o['verdict'] == 'discharged']
    failing = [o for o in obs if o['verdict'] in ('refuted', 'unproved', 'backend-disagreement')]
    undecided = [o for o in obs if o['verdict'] == 'undecided']
    known, violations, still_undecided = [], [], []
    native_cache = {}

    def native(o):
        if a.no_native:
            return None
        k = (o['func'], o['kind'])
        if k not in native_cache:
            native_cache[k] = native_replay(a.repo, o['func'], o['kind'], seed)
        return native_cache[k]
    for o in failing:
        m = [f for f in findings if finding_matches(f, prop, o)]
        if m:
            known.append((o, m[0]))
        else:
            violations.append((o, native(o)))
    for o in undecided:
        m = [f for f in findings if finding_matches(f, prop, o)]
        if m:
            known.append((o, m[0]))
            continue
        nat = native(o)
        if nat and nat.get('status') == 'violated':
            violations.append((o, nat))
        else:
            still_undecided.append(o)
    # ---- run-time contract check of the same clauses on the real code (bounded; never counted as proved) -----
    sweep = None
    native_only = []
    if not a.no_native and (results or bounded_keys):
        sweep = native_sweep(a.repo, [r['key'] for r in results if not r['key'].startswith('lemma:')] + bounded_keys, seed)
        if sweep and sweep.get('pool_failed') and not any(prop in clause_props(side, v['func'], v['clause']) for v in sweep.get('violations', [])):
            # the witness pool could not be built on this tree (reported as a violation by the checks of the class-processing properties):
            # this property's run-time part is undecided, not an error of the checker
            print(f"UNDECIDED run-time contract check: the witness pool cannot be built on this tree ({sweep['violations'][0]['what'][:200]})")
            still_undecided.append({'id': 'native#pool', 'func': 'native', 'kind': 'pool', 'origin': 'witness pool', 'reason': sweep['violations'][0]['what'][:200],
                                    'verdict': 'undecided', 'backend': 'native', 'props': [prop], 'route': 'runtime', 'time_s': 0.0, 'model': ''})
        elif bounded_keys and (not sweep or sweep.get('status') not in ('clean', 'violated')):
            print(f"CHECKER-ERROR bounded run-time contract check did not complete: {sweep}")
            errors.append({'key': 'native', 'error': str(sweep)})
        if sweep and sweep.get('status') == 'violated':
            failing_funcs = {(o['func']) for o, _ in violations}
            for v in sweep['violations']:
                if v['clause'] in ('spec-error', 'harness-error'):
                    continue
                if prop not in clause_props(side, v['func'], v['clause']):
                    continue
                mf = [f for f in findings if finding_matches(f, prop, {'func': v['func'], 'kind': v['clause'], 'origin': v['what'] + ' | ' + v.get('witness', '')})]
                if mf:
                    known.append(({'id': f"{v['func']}#{v['clause']}@runtime", 'func': v['func'], 'kind': v['clause']}, mf[0]))
                    continue
                # attach as the concrete failing input of a failing obligation of the same function, else report on its own
                attached = False
                for idx, (o, nat) in enumerate(violations):
                    if o['func'] == v['func'] and not (nat and nat.get('status') == 'violated'):
                        violations[idx] = (o, {'status': 'violated', 'witness': v, 'violations': [v]})
                        attached = True
                if not attached and v['func'] not in failing_funcs:
                    native_only.append(v)
            # undecided obligations of a function with a native witness become violations
            for o in list(still_undecided):
                ws = [v for v in sweep['violations'] if v['func'] == o['func'] and prop in clause_props(side, v['func'], v['clause'])]
                if ws:
                    still_undecided.remove(o)
                    violations.append((o, {'status': 'violated', 'witness': ws[0], 'violations': ws[:5]}))
            seen_no = set()
            for v in native_only:
                k = (v['func'], v['clause'])
                if k in seen_no:
                    continue
                seen_no.add(k)
                fake = {'id': f"{v['func']}#{v['clause']}@runtime", 'func': v['func'], 'kind': v['clause'], 'origin': v['what'], 'verdict': 'runtime-violation',
                        'backend': 'native run-time contract check', 'reason': 'contract clause false on the real code', 'model': '', 'props': [prop],
                        'route': 'runtime', 'time_s': 0.0}
                violations.append((fake, {'status': 'violated', 'witness': v, 'violations': [v]}))
    seen = set()
    for o, f in known:
        key = (f['property'], f['func'], f['kind'], f.get('origin_contains', ''))
        if key in seen:
            continue
        seen.add(key)
        print(f"KNOWN-FINDING: property={prop} {o['func']}#{o['kind']} {f['what']}")
    vio_lines = []
    for o, nat in violations:
        path = write_replay(prop, o, a.repo, nat)
        suffix = '' if (nat and nat.get('status') == 'violated') else ' no-failing-input-found'
        vio_lines.append(f"VIOLATION property={prop} replay={path}{suffix}")
        print(f"  failed obligation {o['id']}: {o['origin']} [{o['verdict']}; {o['backend']}] {o['reason']}")
        if nat and nat.get('status') == 'violated':
            print(f"  failing input (replayed on the real code): {json.dumps(nat.get('witness'))[:400]}")
    for o in still_undecided:
        print(f"UNDECIDED {o['id']}: {o['origin']} ({o['reason']})")
    for r in oos:
        print(f"UNDECIDED {r['key']}: outside the interpreted subset: {r.get('error')}")
    n_obl = len(obs) - sum(1 for o, _f in known if any(o is x for x in obs))
    # vacuity guards
    vac = []
    if not results and not bounded_keys:
        vac.append('no function under contract serves this property')
    if n_obl + len(known) == 0 and not bounded_keys:
        vac.append('zero obligations generated')
    bounded_calls = sum(v for k, v in ((sweep or {}).get('per_function') or {}).items() if k in bounded_keys and isinstance(v, int))
    if bounded_keys and not a.no_native and bounded_calls == 0 and not (sweep or {}).get('pool_failed'):
        vac.append('bounded contracts evaluated on zero inputs')
    for r in results:
        if r['status'] == 'ok' and not r['obligations']:
            vac.append(f"{r['key']}: zero obligations")
        if r.get('vacuity') not in (None, 'ok'):
            vac.append(f"{r['key']}: {r['vacuity']} (contradictory precondition / assumption?)")
    # ---- evidence ----------------------------------------------------------------------------------
    by_route = {}
    for o in obs:
        by_route[o['route']] = by_route.get(o['route'], 0) + 1
    backends = {}
    for o in obs:
        backends[o['backend']] = backends.get(o['backend'], 0) + 1
    trusted = list(GENERIC_ASSUMPTIONS)
    for k, con in side.contracts.items():
        if prop in con.all_props():
            if con.note:
                trusted.append(f'{k}: {con.note}')
            for (lam, _p, _k) in con.assumes:
                import ast as _ast
                trusted.append(f'{k}: assumes {_ast.unparse(lam.body)[:160]}')
            if con.trusted:
                trusted.append(f'{k}: contract TRUSTED (body not verified): {con.note}')
    samples = [{'obligation': o['id'], 'origin': o['origin'], 'verdict': o['verdict'], 'route': o['route'],
                'backend': o['backend'], 'time_s': o['time_s']} for o in (obs[:: max(1, len(obs) // 12)] if obs else [])][:14]
    only_bounded = bool(bounded_keys) and n_obl + len(known) == 0
    ev = {
        'property_id': prop, 'tier': tier, 'seed': seed,
        'level': load_json(os.path.join(HERE, 'levels.json'), {}).get(prop, 'exploration' if only_bounded else 'proof'),
        'coverage': {
            'evaluations': int((sweep or {}).get('checked') or 0), 'distinct_nontrivial': int(bounded_calls if only_bounded else (sweep or {}).get('checked') or 0),
            'rule': 'run-time contract check: every clause of the sidecar contract evaluated on the real function for each input of the '
                    'enumerated domain / witness pool (inputs are distinct by construction; an input is non-trivial when it satisfies the '
                    'contract precondition, the others are counted under skipped_by_requires)',
            'bounded_stand_ins': [{'function': k, 'inputs_checked': ((sweep or {}).get('per_function') or {}).get(k), 'note': side.contracts[k].note}
                                  for k in bounded_keys],
            'obligations': n_obl, 'discharged': len(discharged),
            'checker_cmd': f'python3-vt check.py {prop} --tier {tier}',
            'trusted_base': trusted,
            'samples': samples or [{'bounded_contract': k, 'inputs_checked': ((sweep or {}).get('per_function') or {}).get(k)} for k in bounded_keys],
            'functions_under_contract': funcs,
            'obligations_by_route': by_route, 'backends': backends,
            'solver_time_s': round(sum(o['time_s'] for o in obs), 3),
            'known_finding_obligations': [{'obligation': o['id'], 'finding': f['what']} for o, f in known],
            'refuted_or_unproved': [o['id'] for o, _ in violations],
            'undecided': [o['id'] for o in still_undecided] + [r['key'] for r in oos],
            'vacuity': vac,
            'sidecar_assumption_scan': side.assumption_scan,
            'runtime_contract_check': ({k: sweep.get(k) for k in ('status', 'calls', 'checked', 'skipped_by_requires', 'wall_s')} if sweep else None),
            'runtime_contract_check_note': 'the same sidecar clauses evaluated at run time on the real functions over the witness pool (bounded; replay / cross-check only, never counted as proved)',
            'explanation': 'obligations = verification conditions generated from the current source of the functions under contract that carry a clause tagged with this property; each is one z3 query (pc and not goal); bounded routes would be listed under obligations_by_route',
        },
        'assumptions': trusted,
        'wall_s': round(time.time() - t0, 2),
        'violations': len(vio_lines),
    }
    # ---- thorough tier: seeded faults (the property's sub-agent changes + catalogue mutants) on scratch copies -------------
    if tier == 'thorough' and a.repo == '/repo' and not os.environ.get('PVC_NO_MUTANTS'):
        ev['coverage']['seeded_faults'] = run_seeded_faults(prop)
    evdir = os.environ.get('PVC_EVIDENCE_DIR') or os.path.join(HERE, 'evidence')
    os.makedirs(evdir, exist_ok=True)
    with open(os.path.join(evdir, f'{prop}.json'), 'w') as f:
        json.dump(ev, f, indent=1)
    print(f"{prop} [{tier}]: functions={len(results)} obligations={n_obl} discharged={len(discharged)} "
          f"known={len(known)} violations={len(violations)} undecided={len(still_undecided) + len(oos)} wall={ev['wall_s']}s")
    if errors or vac:
        for v in vac:
            print('VACUITY', v)
        return 3
    if vio_lines:
        for l in sorted(set(vio_lines)):
            print(l)
        return 1
    if still_undecided or oos:
        return 2
    return 0


if __name__ == '__main__':
    try:
        sys.exit(main())
    except SystemExit:
        raise
    except Exception:
        traceback.print_exc()
        sys.exit(3)
