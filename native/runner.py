"""Run-time contract checking of the real functions (run under /venv/bin/python with PYTHONPATH=<repo>).

runner.py --repo R --func 'pane.converters:TupleConverter.collect_errors' [--clause tree] [--first]
runner.py --repo R --all            (cross-check every contract on the whole pool)

Prints one line  NATIVE-RESULT {json}.
"""
import argparse
import ast
import copy
import importlib
import json
import os
import sys
import time
import traceback

HERE = os.path.dirname(os.path.abspath(__file__))
sys.path.insert(0, HERE)


def load_contracts(ns):
    cdir = os.path.join(os.path.dirname(HERE), 'contracts')
    contracts = {}

    def SPEC(mod, qual, **kw):
        contracts[f'{mod}:{qual}'] = kw

    def LEMMA(*a, **kw):
        pass

    def TABLE(mod, name, **kw):
        kw['table'] = True
        contracts[f'{mod}:{name}'] = kw
    ns['TABLE'] = TABLE
    ns['SPEC'] = SPEC
    ns['LEMMA'] = LEMMA
    class Lazy(ast.NodeTransformer):
        """implies(a, b) / ite(c, a, b) are lazy in the specification language: natively they become `or` / `if-else`"""
        def visit_Call(self, node):
            self.generic_visit(node)
            if isinstance(node.func, ast.Name) and node.func.id == 'implies' and len(node.args) == 2:
                return ast.BoolOp(op=ast.Or(), values=[ast.UnaryOp(op=ast.Not(), operand=node.args[0]), node.args[1]])
            if isinstance(node.func, ast.Name) and node.func.id == 'ite' and len(node.args) == 3:
                return ast.IfExp(test=node.args[0], body=node.args[1], orelse=node.args[2])
            if isinstance(node.func, ast.Name) and node.func.id == 'old' and len(node.args) == 1:
                # old(E): evaluated once in a pre-pass before the real call (see check_call), replayed afterwards
                return ast.Call(func=ast.Name(id='old_get', ctx=ast.Load()),
                                args=[ast.Constant(value=f'{node.lineno}:{node.col_offset}'),
                                      ast.Lambda(args=ast.arguments(posonlyargs=[], args=[], kwonlyargs=[], kw_defaults=[], defaults=[]), body=node.args[0])],
                                keywords=[])
            return node

        def visit_Compare(self, node):
            self.generic_visit(node)
            if len(node.ops) == 1 and isinstance(node.ops[0], (ast.Eq, ast.NotEq)):
                call = ast.Call(func=ast.Name(id='rt_eq', ctx=ast.Load()), args=[node.left, node.comparators[0]], keywords=[])
                return call if isinstance(node.ops[0], ast.Eq) else ast.UnaryOp(op=ast.Not(), operand=call)
            return node
    for fn in sorted(os.listdir(cdir)):
        if fn.endswith('.py'):
            src = open(os.path.join(cdir, fn)).read()
            tree = Lazy().visit(ast.parse(src, fn))
            ast.fix_missing_locations(tree)
            exec(compile(tree, fn, 'exec'), ns)
    ns.update(rt_overrides(ns))
    return contracts


def rt_overrides(ns):
    """Spec helpers that have a complete native decision procedure replace their sidecar definition (which is written for the prover)."""
    def exists_key(m, f):
        try:
            keys = list(m)
        except TypeError:
            return False
        return any(f(k) for k in keys)
    return {'exists_key': exists_key}


def _wrap1(f):
    return lambda result: f(result)


def clauses_of(con):
    """-> list of (kind, callable, mode) mode in post/iff/exc/noraise"""
    out = []

    def norm(x, default_kind):
        items = x if isinstance(x, list) else [x]
        res = []
        for it in items:
            if callable(it):
                res.append((it, default_kind))
            else:
                res.append((it[0], it[2] if len(it) > 2 else default_kind))
        return res
    if 'returns_iff' in con:
        f = con['returns_iff'][0] if isinstance(con['returns_iff'], tuple) else con['returns_iff']
        out.append(('acc', f, 'iff'))
    for f, k in norm(con.get('ensures', []), 'post'):
        out.append((k, f, 'post'))
    if 'raises' in con:
        f = con['raises'][0] if isinstance(con['raises'], tuple) else con['raises']
        out.append(('exc', f, 'exc'))
    if 'no_raise' in con:
        out.append(('exc', None, 'noraise'))
    return out


def requires_of(con):
    r = con.get('requires', [])
    r = r if isinstance(r, list) else [r]
    return [x[0] if isinstance(x, tuple) else x for x in r]


def _plain(x, d=0):
    import collections.abc as abc
    if d > 6:
        return False
    if x is None or isinstance(x, (bool, int, float, complex, str, bytes, bytearray)):
        return True
    if isinstance(x, abc.Mapping):
        return all(_plain(k, d + 1) and _plain(v, d + 1) for k, v in x.items())
    if isinstance(x, (list, tuple, set, frozenset)):
        return all(_plain(v, d + 1) for v in x)
    return False


def snapshot(x):
    """deep snapshot of interchange-style arguments (the frame check is about the DATA passed in)"""
    if not _plain(x) and not type(x).__name__ == 'BareMapping':
        return None
    try:
        return copy.deepcopy(x)
    except Exception:
        return None


def same(a, b):
    try:
        return type(a) is type(b) and a == b
    except Exception:
        return True


def safe_repr(x):
    try:
        return repr(x)
    except Exception as e:     # e.g. a half-built instance whose __repr__ reads a missing field
        return f'<{type(x).__name__} object (repr failed: {type(e).__name__})>'


def check_call(rt, key, con, fn, params, args, want_kind, desc):
    """Call the real function on concrete args and evaluate every clause. Returns list of violations."""
    names = list(params)
    env = dict(zip(names, args))
    rt.set_universe(list(args))
    for rq in requires_of(con):
        try:
            if not rq(*[env[n] for n in rq.__code__.co_varnames[:rq.__code__.co_argcount]]):
                return None
        except rt.NotCheckable:
            pass
        except Exception:
            return None
    before = [snapshot(a) for a in args[1:]] if names and names[0] in ('self', 'cls') else [snapshot(a) for a in args]
    rt.OLD.clear()
    if getattr(con, 'uses_old', False) or (isinstance(con, dict) and con.get('uses_old')):
        # pre-pass: evaluate the clauses once before the call so every reachable old(E) records its entry value
        rt.OLD_PHASE[0] = 'pre'
        for _kind, f_, _mode in clauses_of(con):
            ps_ = f_.__code__.co_varnames[:f_.__code__.co_argcount]
            try:
                f_(*[env.get(n_) for n_ in ps_])
            except BaseException:
                pass
        rt.OLD_PHASE[0] = 'post'
    try:
        result = fn(*args)
        outcome = ('return', result)
    except BaseException as e:   # noqa
        if isinstance(e, (KeyboardInterrupt, SystemExit, MemoryError, RecursionError)):
            raise
        outcome = ('raise', e)
    vios = []
    after = args[1:] if names and names[0] in ('self', 'cls') else args
    pnames_ = names[1:] if names and names[0] in ('self', 'cls') else names
    for b, a, pn_ in zip(before, after, list(pnames_) + [None] * len(after)):
        if pn_ in (con.get('mutable') or []):
            continue            # declared as modified by the function (e.g. the memo of __deepcopy__)
        if b is not None and not same(b, a):
            vios.append(('frame', f'argument mutated: before={safe_repr(b)} after={safe_repr(a)}'))
    rt.set_universe(list(args) + ([outcome[1]] if outcome[0] == 'return' else []))
    for kind, f, mode in clauses_of(con):
        try:
            def ev(extra):
                e2 = dict(env)
                e2.update(extra)
                ps = f.__code__.co_varnames[:f.__code__.co_argcount]
                for n in ps:
                    if n not in e2 and n.startswith('final_'):
                        raise rt.NotCheckable('final state of a local')
                return f(*[e2[n] for n in ps])
            if mode == 'iff':
                accv = bool(ev({}))
                if outcome[0] == 'return' and not accv:
                    vios.append((kind, 'returned normally but the acceptance predicate is false'))
                if outcome[0] == 'raise' and isinstance(outcome[1], rt.ParseInterrupt) and accv:
                    vios.append((kind, 'raised ParseInterrupt but the acceptance predicate is true'))
            elif mode == 'post':
                if outcome[0] == 'return' and not ev({'result': outcome[1]}):
                    vios.append((kind, f'postcondition [{kind}] false for result {safe_repr(outcome[1])}'[:300]))
            elif mode == 'exc':
                if outcome[0] == 'raise' and not ev({'exc': outcome[1]}):
                    vios.append((kind, f'disallowed exception {type(outcome[1]).__name__}: {outcome[1]}'[:300]))
            elif mode == 'noraise':
                if outcome[0] == 'raise':
                    vios.append((kind, f'must not raise, raised {type(outcome[1]).__name__}: {outcome[1]}'[:300]))
        except rt.NotCheckable:
            continue
        except Exception as e:
            vios.append(('spec-error', f'clause [{kind}] could not be evaluated: {type(e).__name__}: {e}'))
    return vios


def instances_for(key, pool, harvested):
    """(callable, param names, list of arg tuples, descriptions)"""
    mod, qual = key.split(':')
    m = importlib.import_module(mod)
    parts = qual.split('.')
    custom = getattr(pool, 'CUSTOM', {}).get(key)
    if custom is not None:
        return custom(m)
    if len(parts) == 1:
        fn = getattr(m, parts[0])
        import inspect
        params = list(inspect.signature(fn).parameters)
        if len(params) == 1:
            return [(fn, params, (v,), f'{qual}({v!r})') for v in pool.VALUES]
        return []
    if len(parts) == 2:
        cls = getattr(m, parts[0], None)
        if cls is None:
            return []
        out = []
        import inspect
        for conv, origin in harvested:
            if isinstance(conv, cls):
                # the function as defined on THIS class (a contract is about that body)
                meth = cls.__dict__.get(parts[1])
                if meth is None or type(conv).__dict__.get(parts[1], meth) is not meth and parts[1] in type(conv).__dict__:
                    continue
                params = list(inspect.signature(meth).parameters)
                if len(params) == 2 and parts[1] == 'into_data':
                    # into_data is specified on values of the converter's own type: use images of accepted pool values
                    for v in pool.VALUES:
                        try:
                            x = conv.try_convert(copy.deepcopy(v))
                        except Exception:
                            continue
                        out.append((meth, params, (conv, x), f'{origin} .into_data(<image of {v!r}> = {x!r})'))
                elif len(params) == 2:
                    for v in pool.VALUES:
                        out.append((meth, params, (conv, v), f'{origin} .{parts[1]}({v!r})'))
                elif len(params) == 3 and parts[1] == 'construct':
                    for v in pool.VALUES[:20]:
                        for i in range(len(conv.converters)):
                            out.append((meth, params, (conv, v, i), f'{origin} .construct({v!r},{i})'))
        return out
    return []


def main():
    ap = argparse.ArgumentParser()
    ap.add_argument('--repo', default='/repo')
    ap.add_argument('--func')
    ap.add_argument('--funcs')
    ap.add_argument('--clause')
    ap.add_argument('--first', action='store_true')
    ap.add_argument('--all', action='store_true')
    ap.add_argument('--seed', type=int, default=0)
    ap.add_argument('--max', type=int, default=200000)
    a = ap.parse_args()
    t0 = time.time()
    import rt
    try:
        import pool
    except BaseException as e:   # noqa
        # the witness pool defines ordinary dataclasses / types that are valid on the unchanged tree: if the library refuses one of
        # them at class-creation time, that is a failing run of the class-processing code (reported on the bounded contract of _process)
        tb = traceback.format_exc()
        in_repo = '/pane/' in tb and 'native/pool.py' in tb
        v = {'func': 'pane.classes:_process.bounded', 'clause': 'exc', 'what': f'defining a witness-pool class raised {type(e).__name__}: {e}'[:300],
             'witness': 'class statement in the witness pool: ' + tb.strip().splitlines()[-3].strip()[:200] if in_repo else tb[-300:]}
        print('NATIVE-RESULT ' + json.dumps({'status': 'violated' if in_repo else 'pool-error', 'calls': 1, 'checked': 1, 'skipped_by_requires': 0,
                                              'violations': [v], 'witness': v, 'per_function': {}, 'wall_s': round(time.time() - t0, 2), 'pool_failed': True}))
        return
    ns = rt.namespace()
    ns.update({'T_': pool.T_, 'U_': pool.U_})          # the type variables of the pool's generic class hierarchies
    contracts = load_contracts(ns)
    harvested = pool.harvest()
    keys = [a.func] if a.func else (a.funcs.split(',') if a.funcs else [k for k, c in contracts.items() if not c.get('trusted')])
    total, checked, skipped = 0, 0, 0
    violations = []
    per_func = {}
    for key in keys:
        con = contracts.get(key)
        if con is None:
            continue
        try:
            insts = [] if con.get('table') else instances_for(key, pool, harvested)
        except Exception as e:
            per_func[key] = f'no instances: {e}'
            continue
        n_ok = 0
        if con.get('table'):
            mod, name = key.split(':')
            value = getattr(importlib.import_module(mod), name)
            insts = [((lambda value=value: value), [], (), f'module-level value {key}')]
            con = dict(con)
            con['ensures'] = [(_wrap1(c[0]), c[1], c[2] if len(c) > 2 else 'table') for c in con.get('ensures', [])]
        for fn, params, args, desc in insts[:a.max]:
            total += 1
            try:
                v = check_call(rt, key, con, fn, params, args, a.clause, desc)
            except Exception as e:
                v = [('harness-error', traceback.format_exc()[-400:])]
            if v is None:
                skipped += 1
                continue
            checked += 1
            n_ok += 1
            for kind, msg in v:
                violations.append({'func': key, 'clause': kind, 'what': msg, 'witness': desc})
            if v and a.first and (a.clause is None or any(k == a.clause or k in ('frame',) or True for k, _ in v)):
                break
        per_func[key] = n_ok
        if violations and a.first:
            break
    res = {'status': 'violated' if violations else ('clean' if checked else 'no-instances'), 'calls': total, 'checked': checked,
           'skipped_by_requires': skipped, 'violations': violations[:50], 'witness': violations[0] if violations else None,
           'per_function': per_func, 'wall_s': round(time.time() - t0, 2)}
    print('NATIVE-RESULT ' + json.dumps(res, default=str))


if __name__ == '__main__':
    main()
