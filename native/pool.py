"""Witness pools: real types (-> real converter objects of every class) and interchange values,
including the adversarial witnesses of the assumed stdlib contracts."""
import collections
import copy
import collections.abc as abc
import datetime
import decimal
import enum
import fractions
import pathlib
import re
import typing as t

import pane
from pane import PaneBase, field
from pane.annotations import Tagged, Condition, Positive, NonNegative, len_range, val_range, Negative
from pane.convert import make_converter, ConverterHandlers
from pane.types import ValueOrList
import pane.converters as C


class BareMapping(abc.Mapping):
    """A Mapping without .copy / .pop"""
    def __init__(self, d):
        self.d = dict(d)

    def __getitem__(self, k):
        return self.d[k]

    def __iter__(self):
        return iter(self.d)

    def __len__(self):
        return len(self.d)

    def __repr__(self):
        return f'BareMapping({self.d!r})'

    def __eq__(self, o):
        return isinstance(o, BareMapping) and o.d == self.d


class Color(enum.Enum):
    RED = 1
    GREEN = 2


class Name(enum.Enum):
    A = 'a'
    B = 'b'


class VA(PaneBase):
    tag: t.Literal['a'] = 'a'
    x: int = 0


class VB(PaneBase):
    tag: t.Literal['b'] = 'b'
    y: str = ''


class VF(PaneBase):
    tag: t.Literal[False] = False
    z: int = 0


class P2(PaneBase, in_format=('tuple', 'struct')):
    a: str
    b: str


class PT(PaneBase, in_format=('tuple', 'struct'), out_format='tuple'):
    lo: int
    hidden: float = field(init=False, default=0.5)
    hi: int = 3
    label: str = field(default='l', kw_only=True)


class PAlias(PaneBase, allow_extra=True):
    width: int = field(aliases=('W', 'w_'))
    height: float = 1.0
    tags: t.List[str] = field(default_factory=list)


class PReq(PaneBase):
    n: int
    m: t.Optional[str] = None


class PRen(PaneBase, rename='camel', in_format=('struct', 'tuple')):
    first_name: str
    last_name: str = 'x'


class PHook(PaneBase, in_format=('struct', 'tuple')):
    lo: int
    hi: int

    def __post_init__(self):
        if self.lo > self.hi:
            raise ValueError('lo > hi')


class PHook2(PaneBase):
    k: int = 0

    def __post_init__(self):
        assert self.k != 13, 'unlucky'


class PNest(PaneBase):
    inner: PReq
    items: t.List[PAlias] = field(default_factory=list)


def raising_pred(v):
    return {}[v]


def attr_pred(v):
    return v.shape == (2,)


TYPES = [
    int, float, complex, str, bytes, bool, type(None), t.Any,
    t.List[int], t.List[str], t.Sequence[float], t.Set[int], t.FrozenSet[str], t.Tuple[int, str], t.Tuple[int, ...], t.Tuple[()],
    t.Dict[str, int], t.Dict[int, t.List[int]], t.Mapping[str, t.Any], collections.Counter, collections.deque,
    t.Union[int, str], t.Optional[int], t.Union[float, int], t.Union[t.List[int], t.Dict[str, int], None],
    t.Literal['a', 'b', 1], t.Literal[1],
    Color, Name, re.Pattern, t.Pattern[bytes], datetime.date, datetime.datetime, datetime.time,
    decimal.Decimal, fractions.Fraction, pathlib.PurePosixPath,
    t.Annotated[int, Positive], t.Annotated[float, NonNegative, val_range(max=10)], t.Annotated[t.List[int], len_range(min=1, max=3)],
    t.Annotated[t.Set[int], len_range(min=2)], t.Annotated[int, Condition(raising_pred, 'raising')],
    t.Annotated[str, Condition(attr_pred, 'attr')], t.Annotated[int, ~Positive], t.Annotated[int, Positive | Negative],
    t.Annotated[t.Union[VA, VB], Tagged('tag')], t.Annotated[t.Union[VA, VB], Tagged('tag', external=True)],
    t.Annotated[t.Union[VA, VB], Tagged('tag', external=('t', 'c'))], t.Annotated[t.Union[VA, VF], Tagged('tag')],
    t.Annotated[t.Union[VA, VB], Tagged('tag', external=['t', 'c'])],
    {'a': int, 'b': str}, {'x': t.List[int]}, (int, str), [int, float, str],
    P2, PT, PAlias, PReq, PRen, PHook, PHook2, PNest, VA,
    t.List[P2], t.Dict[str, PReq], t.Union[PReq, str], t.Optional[PT], t.List[t.Union[int, t.List[int]]],
    # one side undeclared (Any), the other with a serialisation that differs from the by-runtime-type default
    t.Dict[t.Any, t.Annotated[t.Union[VA, VB], Tagged('tag', external=True)]], t.Dict[t.Annotated[t.Union[int, str], Tagged('tag')], t.Any],
    t.Dict[t.Any, PT], t.Union[datetime.date, datetime.datetime], t.Union[datetime.time, datetime.datetime],
    ValueOrList[int], ValueOrList[PReq], t.List[ValueOrList[str]],
]

VALUES = [
    None, True, False, 0, 1, 2, -1, 13, 10 ** 400, 1.5, 2.0, -0.5, float('inf'), 1 + 0j, 3 + 2j,
    '', 'a', 'b', 'xy', 'abc', '1', '1/3', '2023-09-05', '11:11:11', '2023-09-05 11:11:11', 'a{4294967296}', '(', '[a-z]+', 'not a date',
    b'', b'xy', bytearray(b'ab'),
    [], [1], [1, 2], [1, 'a'], ['a', 'b'], [1, 2, 3, 4], [[1], [2, 3]], ['x', 'y'], [1, 2.5], [7, 7], (1, 'a'), (1, 2), ('a', 'b'), (1, 2.5, 'w'), [1, 'fast'],
    (), [None], [1, None, 3], ['JD'], 'JD',
    {}, {'a': 1}, {'a': 1, 'b': 'x'}, {'a': 'x', 'b': 'y'}, {'a': 1, 'b': 'x', 'c': 0}, {'b': 'x'}, {'x': [1, 2]}, {'x': [1, 'a']}, {1: [1], 2: []}, {1: 'a', '1': 'b'},
    {'tag': 'a'}, {'tag': 'a', 'x': 3}, {'tag': 'b', 'y': 'q'}, {'tag': 'c'}, {'tag': [1]}, {'tag': 'a', 'x': 'bad'}, {'x': 3}, {'tag': False, 'z': 1},
    {'a': {'x': 3}}, {'a': {'x': 'bad'}}, {'b': {}}, {'c': {}}, {'a': {}, 'b': {}}, {[1].__len__(): 1},
    {'t': 'a', 'c': {'x': 1}}, {'t': 'a', 'c': {'x': 1}, 'z': 0}, {'t': [1], 'c': {}}, {'t': 'a'}, {'t': 'b', 'c': {'y': 3}},
    {'width': 3}, {'W': 3}, {'W': 4, 'width': 3}, {'width': 3, 'W': 4}, {'w_': 1, 'W': 'x'}, {'W': 'bad'}, {'w_': 'bad', 'height': 'h'}, {'width': 'bad', 'W': 4}, {'width': 3, 'junk': 1, 'more': [1]},
    {'height': 2.0}, {'n': 1}, {'n': 'x'}, {'n': 1, 'm': None}, {'m': 'q'}, {'n': 1, 'zzz': 2},
    {'firstName': 'a'}, {'first_name': 'a'}, {'firstName': 'a', 'lastName': 'b'},
    {'lo': 1, 'hi': 2}, {'lo': 3, 'hi': 2}, [1, 2], [3, 2], {'k': 13}, {'k': 1},
    {'inner': {'n': 1}}, {'inner': {'n': 'x'}, 'items': [{'width': 1}, {'W': 'q'}]},
    {'lo': 1}, [1], [1, 5], [1, 5, 'extra'], {'lo': 1, 'hi': 5, 'label': 'z'}, {'lo': 1, 'hidden': 2.0},
    re.compile('ab'), datetime.date(2023, 9, 5), datetime.datetime(2023, 9, 5, 1, 2), datetime.time(1, 2), decimal.Decimal('1.5'),
    fractions.Fraction(1, 3), pathlib.PurePosixPath('/a/b'), Color.RED, {1, 2}, frozenset({'a'}), collections.deque([1, 2]),
    BareMapping({'tag': 'b', 'y': 'q'}), BareMapping({'a': 1, 'b': 'x'}), BareMapping({'n': 2}),
    {'k': {'a': {'x': 3}}}, {1: {'a': {'x': 3}}, 'z': {'b': {'y': 'q'}}}, {'k': [1, 5]},
    # mappings with __missing__: a look-up of an absent key inserts it (C09)
    collections.defaultdict(list, {'p': 1, 'q': 2}), collections.defaultdict(list, {'x': 3}), collections.defaultdict(list),
]


def _double(v):
    return v * 2


_INT_DOUBLED = C.ScalarConverter(int, int, 'a doubled int', 'doubled ints', _double)


def _h5(ty, args, *, handlers):          # answers for int with a converter that serialises 5 as 10
    return _INT_DOUBLED if ty is int and not args else NotImplemented


def harvest():
    """All converter objects reachable from the pool types, with a description of where they came from."""
    seen, out = set(), []

    def visit(c, origin):
        if not isinstance(c, C.Converter) or id(c) in seen:
            return
        seen.add(id(c))
        out.append((c, origin))
        for name in ('converters', 'field_converters', 'v_conv', 'k_conv', 'inner', 'inner_conv', 'ty_conv', 'val_conv'):
            sub = getattr(c, name, None)
            if isinstance(sub, C.Converter):
                visit(sub, f'{origin}.{name}')
            elif isinstance(sub, abc.Mapping):
                for k, s in sub.items():
                    visit(s, f'{origin}.{name}[{k!r}]')
            elif isinstance(sub, (list, tuple)):
                for k, s in enumerate(sub):
                    visit(s, f'{origin}.{name}[{k}]')
    for ty in TYPES:
        try:
            conv = make_converter(ty)
        except Exception as e:   # types the pinned tree cannot build are not part of the pool
            continue
        visit(conv, f'make_converter({_tyrepr(ty)})')
    # the same containers of undeclared (Any) parts, built WITH a handler whose serialisation is observable (ints are doubled):
    # handlers must reach the runtime-typed parts in the into_data direction too (C18)
    for ty in (t.Dict[str, t.Any], t.Dict[t.Any, str], t.List[t.Any], t.Mapping[str, t.Any], {'a': t.Any}, t.Dict[t.Any, t.Any]):
        try:
            conv = make_converter(ty, ConverterHandlers((_h5,), ()))
        except Exception:
            continue
        visit(conv, f'make_converter({_tyrepr(ty)}, handlers=<ints doubled>)')
    return out


def _tyrepr(ty):
    r = getattr(ty, '__name__', None)
    if isinstance(ty, type) and r:
        return r
    return repr(ty).replace('typing.', 't.')


# ---- instance generators for functions that are not converter methods ------------------------------------------
def _kw_instances(fn, names, grid, label):
    import itertools
    out = []
    for combo in itertools.product(*grid):
        kw = dict(zip(names, combo))
        out.append(((lambda *a, _kw=kw: fn(**_kw)), names, combo, f'{label}({", ".join(f"{k}={v!r}" for k, v in kw.items())})'))
    return out


_BOUNDS = [None, 0, 1, -5, 5, 0.0, 2.5]
_CONDS = [Positive, Negative, NonNegative, Condition(raising_pred, 'raising'), Condition(lambda v: v == 3, 'is3'), val_range(min=0, max=5)]

CUSTOM = {
    'pane.annotations:val_range': lambda m: _kw_instances(m.val_range, ['min', 'max'], [_BOUNDS, _BOUNDS], 'val_range'),
    'pane.annotations:len_range': lambda m: _kw_instances(m.len_range, ['min', 'max'], [[None, 0, 1, 3], [None, 0, 2, 3]], 'len_range'),
    'pane.annotations:Condition.all': lambda m: [((lambda conds, me, _f=m.Condition.all: _f(*conds, make_expected=me)), ['conditions', 'make_expected'], (cs, None), f'Condition.all{cs!r}')
                                                 for cs in [(), (Positive,), (Positive, _CONDS[4]), (_CONDS[3], Negative), (Negative, _CONDS[3]), tuple(_CONDS[:3])]],
    'pane.annotations:Condition.any': lambda m: [((lambda conds, me, _f=m.Condition.any: _f(*conds, make_expected=me)), ['conditions', 'make_expected'], (cs, None), f'Condition.any{cs!r}')
                                                 for cs in [(), (Positive,), (Negative, _CONDS[4]), (_CONDS[3], Positive), (Positive, _CONDS[3]), tuple(_CONDS[:3])]],
    'pane.annotations:Condition.__invert__': lambda m: [(m.Condition.__invert__, ['self'], (c,), f'~{c.name}') for c in _CONDS],
    'pane.annotations:Condition.__and__': lambda m: [(m.Condition.__and__, ['self', 'other'], (a, b), f'{a.name} & {b.name}') for a in _CONDS for b in _CONDS],
    'pane.annotations:Condition.__or__': lambda m: [(m.Condition.__or__, ['self', 'other'], (a, b), f'{a.name} | {b.name}') for a in _CONDS for b in _CONDS],
}


def _h1(ty, args, *, handlers):
    return NotImplemented


def _h2(ty, args, *, handlers):
    return NotImplemented


class PInit(PaneBase, in_format=('tuple', 'struct')):
    lo: fractions.Fraction
    skipped: str = field(init=False, default='s')
    hi: int = 2
    w: float = field(default=1.0, aliases=('W',))


class PInner(PaneBase, custom=_h1):
    v: int = 0


_STR_MARK = C.ScalarConverter(str, str, 'a marked string', 'marked strings')
_INT_MARK = C.ScalarConverter(int, int, 'a marked int', 'marked ints', int)


def _h3(ty, args, *, handlers):          # answers for str only
    return _STR_MARK if ty is str and not args else NotImplemented


def _h4(ty, args, *, handlers):          # answers for int only
    return _INT_MARK if ty is int and not args else NotImplemented


class PInner2(PaneBase, custom=_h4):     # own class handler for int; str must come from an ENCLOSING class's / the call's handlers
    v: int = 0
    s: str = ''


PANE_CLASSES = [P2, PT, PAlias, PReq, PRen, PHook, PHook2, PNest, VA, VB, PInit, PInner, PInner2]
HANDLER_SETS = [ConverterHandlers(), ConverterHandlers((_h1,), ()), ConverterHandlers((), (_h2,)), ConverterHandlers((_h1,), (_h2, _h1)),
                ConverterHandlers((), (_h3,)), ConverterHandlers((_h3,), (_h2,))]


def _pane_init_instances(m):
    out = []
    for cls in PANE_CLASSES:
        for hs in HANDLER_SETS:
            def run(self_, cls_, handlers_, _m=m):
                _m.PaneConverter.__init__(self_, cls_, handlers=handlers_)
            obj = m.PaneConverter.__new__(m.PaneConverter)
            out.append((run, ['self', 'cls', 'handlers'], (obj, cls, hs), f'PaneConverter.__init__({cls.__name__}, handlers={hs!r})'))
    return out


CUSTOM['pane.classes:PaneConverter.__init__'] = _pane_init_instances
TYPES.extend([PInit, PInner, t.List[PInner]])
VALUES.extend([{'lo': '1/4', 'hi': 3}, ['1/4', 3], {'lo': '1/4', 'W': 2.0}, {'v': 1}])


# ---- generated dunder closures: call the real closure, free variables passed as extra contract parameters -----------
def _closure_instances(fn, arg_tuples, label):
    code = fn.__code__
    npos, nkw = code.co_argcount, code.co_kwonlyargcount
    pnames = list(code.co_varnames[:npos + nkw])
    params = pnames + list(code.co_freevars)
    cells = [c.cell_contents for c in (fn.__closure__ or ())]
    out = []
    for args in arg_tuples:
        def run(*a, _fn=fn):
            return _fn(*a[:npos], **dict(zip(pnames[npos:], a[npos:npos + nkw])))
        out.append((run, params, tuple(args) + tuple(cells), f'{label}{tuple(args)!r}'))
    return out


def _instances_of_classes():
    insts = []
    for cls in PANE_CLASSES:
        objs = []
        for v in VALUES:
            try:
                objs.append(pane.from_data(v, cls))
            except Exception:
                pass
        insts.append((cls, objs[:6]))
    return insts


def _eq_instances(m):
    out = []
    for cls, objs in _instances_of_classes():
        fn = cls.__dict__.get('__eq__')
        if fn is None or not objs:
            continue
        pairs = [(a, b) for a in objs for b in objs][:20] + [(objs[0], 3), (objs[0], PReq(n=1))]
        out += _closure_instances(fn, pairs, f'{cls.__name__}.__eq__')
    return out


def _ord_instances(m):
    out = []
    for cls, objs in _instances_of_classes():
        fn = cls.__dict__.get('_pane_ord')
        if fn is None or not objs:
            continue
        pairs = [(a, b) for a in objs for b in objs][:20] + [(objs[0], PReq(n=1))]
        out += _closure_instances(fn, pairs, f'{cls.__name__}._pane_ord')
    return out


def _hash_instances(m):
    out = []
    for cls, objs in _instances_of_classes():
        fn = cls.__dict__.get('__hash__')
        if fn is None or not objs or not hasattr(fn, '__code__'):
            continue
        out += _closure_instances(fn, [(o,) for o in objs], f'{cls.__name__}.__hash__')
    return out


def _fdu_instances(m):
    out = []
    for cls in PANE_CLASSES:
        fn = cls.__dict__['from_dict_unchecked'].__func__
        names = [f.name for f in cls.__pane_info__.fields]
        full = {n: 1 for n in names}
        for sf in (None, set(), set(names[:1]), set(names)):
            out += _closure_instances(fn, [(cls, full, sf)], f'{cls.__name__}.from_dict_unchecked')
        # a partial mapping (the documented use: the caller vouches for what it passes); the caller's dict must stay as it is
        out += _closure_instances(fn, [(cls, {names[0]: 1}, None)], f'{cls.__name__}.from_dict_unchecked[partial]')
    return out


CUSTOM['pane.classes:_make_eq.<locals>.__eq__'] = _eq_instances
CUSTOM['pane.classes:_make_ord.<locals>._pane_ord'] = _ord_instances
CUSTOM['pane.classes:_make_hash.<locals>.__hash__'] = _hash_instances
CUSTOM['pane.classes:_make_init.<locals>.from_dict_unchecked'] = _fdu_instances
CUSTOM['pane.classes:_make_init.<locals>.from_dict_unchecked.own.bounded'] = _fdu_instances


def _mc_instances(m):
    out = []
    fn = m.make_converter.inner_f if hasattr(m.make_converter, 'inner_f') else m.make_converter
    for ty in TYPES:
        for hs in HANDLER_SETS[:3]:
            out.append((fn, ['ty', 'handlers'], (ty, hs), f'make_converter({_tyrepr(ty)}, {hs!r})'))
    return out


CUSTOM['pane.convert:make_converter'] = _mc_instances


# ---- C20: bounded domain of field names -----------------------------------------------------------------------------
def _rename_instances(bad):
    import itertools
    import importlib
    fm = importlib.import_module('pane.field')
    words = ['ab', 'cd', 'abc', 'xy']
    names = ['_'.join(c) for n in (1, 2, 3) for c in itertools.product(words, repeat=n)]
    badnames = ['_ab', 'ab_', 'ab__cd', '__ab__', 'ab--cd', 'ab_-cd', '-ab', 'ab-', 'ab_cd_', '_', 'ab___cd']
    out = []
    for nm in (badnames if bad else names):
        for st in ('snake', 'scream', 'kebab', 'camel', 'pascal'):
            out.append((fm.rename_field, ['field', 'style'], (nm, st), f'rename_field({nm!r}, {st!r})'))
    return out


CUSTOM['pane.field:rename_field.bounded'] = lambda m: _rename_instances(False)
CUSTOM['pane.field:rename_field.refusal'] = lambda m: _rename_instances(True)


# ---- C17: class hierarchies ---------------------------------------------------------------------------------------------
T_ = t.TypeVar('T_')
U_ = t.TypeVar('U_')


class HA(PaneBase):
    x: int = 1
    y: float = 2.0


class HB(HA):
    x: float = 9.0          # redeclared: stays first
    z: float = field(default=3.0, kw_only=True)


class HC(HB):
    w: int = 4              # positional, goes before the keyword-only z


class HD(HC, frozen=False, allow_extra=True, in_format=('struct', 'tuple'), kw_only=False):
    v: int = 5


class HE(HD):
    u: int = 6


class HMixin:
    def helper(self):
        return 1


class HF(HMixin, HD):
    t_: int = 7


class HG(PaneBase, t.Generic[T_]):
    a: T_
    deep: t.Dict[str, t.List[T_]] = field(default_factory=dict)
    opt: t.Optional[t.List[T_]] = None
    pair: t.List[t.Tuple[str, T_]] = field(default_factory=list)


class HH(HG[U_]):
    b: U_ = None  # type: ignore


class HI(HG[int]):
    c: float = 0.0


class HK(PaneBase, kw_only=True, rename='camel'):
    first_one: int = 1


class HL(HK):
    second_one: int = 2


def _process_instances(m):
    hgi = HG[int]
    hhs = HH[str]
    cases = [
        (HA, {}), (HB, {}), (HC, {}), (HD, {'opts': {'frozen': False, 'allow_extra': True}}),
        (HE, {'opts': {'frozen': False, 'allow_extra': True, 'in_format': ('struct', 'tuple'), 'kw_only': False}}),
        (HF, {'opts': {'frozen': False, 'allow_extra': True, 'in_format': ('struct', 'tuple')}}),
        (hgi, {'types': {'a': int, 'deep': t.Dict[str, t.List[int]], 'opt': t.Optional[t.List[int]], 'pair': t.List[t.Tuple[str, int]]},
               'values': [({'a': 1, 'deep': {'k': [1]}}, True), ({'a': 1, 'deep': {'k': ['x']}}, False), ({'a': 1, 'opt': ['x']}, False),
                          ({'a': 1, 'pair': [['s', 'x']]}, False), ({'a': 'x'}, False)]}),
        (hhs, {'types': {'a': str, 'b': str}, 'values': [({'a': 's', 'b': 'q'}, True), ({'a': 1}, False)]}),
        (HI, {'types': {'a': int}, 'values': [({'a': 1, 'c': 2.0}, True), ({'a': 'x'}, False)]}),
        (HL, {'opts': {'kw_only': True, 'out_rename': 'camel'}}),
        (PAlias, {}), (PT, {}), (PNest, {}), (PInit, {}), (PMut, {}), (PSpan, {}),
    ]
    return [((lambda cls, expect: cls), ['cls', 'expect'], (c, e), f'class {getattr(c, "__name__", c)}') for c, e in cases]


CUSTOM['pane.classes:_process.bounded'] = _process_instances


def _subscript_case(kind):
    """re-parameterisation spellings of generic dataclasses"""
    V = t.TypeVar('V')
    if kind == 'forwarded':                       # class H(G[V]) ; H[str]
        class H1(HG[V]):
            extra: V = None  # type: ignore
        return H1[str].__pane_info__.fields[0].type
    if kind == 'explicit-generic':                # class H(G[V], Generic[V]) ; H[str]
        class H2(HG[V], t.Generic[V]):
            extra: V = None  # type: ignore
        return H2[str].__pane_info__.fields[0].type
    if kind == 'partially-bound':                 # class H(G[int], Generic[V]) ; H[str]
        class H3(HG[int], t.Generic[V]):
            extra: V = None  # type: ignore
        return (H3[str].__pane_info__.fields[0].type, H3[str].__pane_info__.fields[-1].type)
    if kind in ('swapped', 'grandchild', 'rebound-same-var'):
        class HP2(PaneBase, t.Generic[T_, U_]):
            first: T_
            second: U_
        if kind == 'rebound-same-var':            # class C(P[int, str], Generic[T]): z: T -- T is a NEW parameter of C
            class HC2(HP2[int, str], t.Generic[T_]):
                z: T_ = None  # type: ignore
            return (HC2.__pane_info__.fields[-1].type, HC2[float].__pane_info__.fields[-1].type, HC2[float].__pane_info__.fields[0].type)

        class HS(HP2[U_, T_]):                    # parameters forwarded in swapped order
            pass
        if kind == 'grandchild':
            class HS2(HS):
                pass
            return tuple(f.type for f in HS2.__pane_info__.fields)
        return tuple(f.type for f in HS.__pane_info__.fields) + tuple(f.type for f in HS[int, str].__pane_info__.fields)
    if kind == 'nested-typevar':                  # G[List[V], int][str]: a variable INSIDE an argument stays a parameter
        class HP3(PaneBase, t.Generic[T_, U_]):
            first: T_
            second: U_
        V = t.TypeVar('V')
        return tuple(f.type for f in HP3[t.List[V], int][str].__pane_info__.fields)
    if kind == 'nested-generic':                  # a field whose type is a subscripted generic dataclass
        class HGS(PaneBase, t.Generic[T_]):
            v: T_

        class HW(PaneBase, t.Generic[T_]):
            inner: HGS[T_]
        return HW[int].__pane_info__.fields[0].type.__pane_info__.fields[0].type
    raise ValueError(kind)


SUBSCRIPT_KINDS = ('forwarded', 'explicit-generic', 'partially-bound', 'swapped', 'grandchild', 'rebound-same-var', 'nested-typevar', 'nested-generic')
CUSTOM['pane.classes:_make_subclass.bounded'] = lambda m: [(_subscript_case, ['kind'], (k,), f'subscript[{k}]') for k in SUBSCRIPT_KINDS]


def _rtv_instances(m):
    T1, T2 = t.TypeVar('T1'), t.TypeVar('T2')
    cases = [
        (T1, {T1: int}, int), (t.List[T1], {T1: int}, t.List[int]), (t.Dict[str, t.List[T1]], {T1: int}, t.Dict[str, t.List[int]]),
        (t.Union[T1, float], {T1: int}, t.Union[int, float]), (t.Union[float, T1], {T1: int}, t.Union[float, int]),
        (t.Union[T1, T2, str], {T1: str, T2: int}, t.Union[str, int]), (t.Union[T1, str], {T1: bool}, t.Union[bool, str]),
        (t.Union[str, T1], {T1: bool}, t.Union[str, bool]), (t.Union[T1, bytes], {T1: complex}, t.Union[complex, bytes]),
        (t.Union[bytes, T1], {T1: complex}, t.Union[bytes, complex]), (t.Union[T1, None], {T1: float}, t.Optional[float]),
        (t.Optional[t.List[T1]], {T1: int}, t.Optional[t.List[int]]), (t.List[t.Tuple[str, T1]], {T1: int}, t.List[t.Tuple[str, int]]),
        (t.Tuple[T1, ...], {T1: int}, t.Tuple[int, ...]), (t.Union[T1, int], {T1: int}, int), (t.List[T1], {}, t.List[T1]),
        (t.Dict[T1, T2], {T1: str, T2: t.List[int]}, t.Dict[str, t.List[int]]), (int, {T1: str}, int),
        (t.Union[t.List[T1], t.Set[T1], T1], {T1: int}, t.Union[t.List[int], t.Set[int], int]),
        # substitution is SIMULTANEOUS: a replacement that is itself a type variable is not substituted again
        (T1, {T1: T2, T2: int}, T2), (t.Tuple[T1, T2], {T1: T2, T2: int}, t.Tuple[T2, int]),
        (t.List[t.Tuple[T1, T2]], {T1: T2, T2: T1}, t.List[t.Tuple[T2, T1]]), (t.Dict[T1, t.List[T2]], {T1: T2, T2: T1}, t.Dict[T2, t.List[T1]]),
    ]
    return [(m.replace_typevars, ['ty', 'replacements', 'expect'], (a, b, c), f'replace_typevars({a}, ...)') for a, b, c in cases]


def _wrap_rtv(m):
    out = []
    for fn, params, args, desc in _rtv_instances(m):
        out.append(((lambda ty, repl, expect, _f=fn: _f(ty, repl)), params, args, desc))
    return out


CUSTOM['pane.util:replace_typevars.bounded'] = _wrap_rtv


# ---- C19: file round trips ---------------------------------------------------------------------------------------------------
def _io_roundtrip(fmt, sink, value, ty, options):
    import io as _io
    import os as _os
    import tempfile
    import builtins
    import importlib
    pio = importlib.import_module('pane.io')
    res = {'caller_stream_left_open': True, 'path_handle_closed': True}
    writer = pio.write_json if fmt == 'json' else pio.write_yaml
    reader = pio.from_json if fmt == 'json' else pio.from_yaml
    opened = []
    real_open = builtins.open

    def spy_open(*a, **k):
        h = real_open(*a, **k)
        opened.append(h)
        return h
    if sink in ('path', 'strpath'):
        d = tempfile.mkdtemp()
        p = _os.path.join(d, 'f.' + fmt)
        target = p if sink == 'strpath' else __import__('pathlib').Path(p)
        builtins.open = spy_open
        try:
            writer(value, target, ty=ty, **options)
            res['value'] = reader(target, ty)
        finally:
            builtins.open = real_open
            __import__('shutil').rmtree(d, ignore_errors=True)
        res['path_handle_closed'] = all(h.closed for h in opened) and len(opened) == 2
    elif sink == 'stream':
        buf = _io.StringIO()
        writer(value, buf, ty=ty, **options)
        res['caller_stream_left_open'] = not buf.closed
        buf.seek(0)
        res['value'] = reader(buf, ty)
        res['caller_stream_left_open'] = res['caller_stream_left_open'] and not buf.closed
    elif sink == 'realfile':
        d = tempfile.mkdtemp()
        p = _os.path.join(d, 'g.' + fmt)
        try:
            with real_open(p, 'w', encoding='latin-1') as fh:
                writer(value, fh, ty=ty, **options)
                import gc
                gc.collect()
                res['caller_stream_left_open'] = not fh.closed
                if not fh.closed:
                    fh.flush()
            with real_open(p, 'r', encoding='utf-8') as fh:
                res['value'] = reader(fh, ty)
                res['caller_stream_left_open'] = res['caller_stream_left_open'] and not fh.closed
        finally:
            __import__('shutil').rmtree(d, ignore_errors=True)
    elif sink == 'string':
        s = value.write_json(**options) if fmt == 'json' else value.write_yaml(**options)
        res['value'] = type(value).from_jsons(s) if fmt == 'json' else type(value).from_yamls(s)
    return res


def _io_instances(m):
    out = []
    vals = [([1, 2, 3], t.List[int]), ({'a': 1.5, 'b': -2.0}, t.Dict[str, float]), (PReq(n=3, m='é'), PReq), (PAlias(width=2, tags=['x', 'ü']), PAlias),
            (PNest(inner=PReq(n=1)), PNest), ((1, 'a'), t.Tuple[int, str]), (None, t.Optional[int]), ('plain ünï', str),
            (VA(x=3), t.Annotated[t.Union[VA, VB], Tagged('tag', external=True)]), ([PReq(n=1), PReq(n=2, m='q')], t.List[PReq])]
    jopts = [{}, {'indent': 2}, {'sort_keys': True}, {'indent': '\t', 'sort_keys': True}]
    yopts = [{}, {'indent': 4}, {'default_flow_style': True}, {'allow_unicode': False}, {'explicit_start': False, 'explicit_end': True}, {'sort_keys': True, 'width': 20}]
    for v, ty in vals:
        for sink in ('path', 'strpath', 'stream', 'realfile') + (('string',) if isinstance(v, PaneBase) else ()):
            for fmt, opts in (('json', jopts), ('yaml', yopts)):
                for o in opts:
                    out.append((_io_roundtrip, ['fmt', 'sink', 'value', 'ty', 'options'], (fmt, sink, v, ty, o), f'roundtrip({fmt}, {sink}, {v!r}, {o})'))
    return out


CUSTOM['pane.io:roundtrip.bounded'] = _io_instances


def _yaml_all(value, ty, source='stream'):
    import io as _io
    import yaml
    import importlib
    import tempfile
    import os as _os
    pio = importlib.import_module('pane.io')
    text = yaml.safe_dump_all(value)
    if source == 'stream':
        return pio.from_yaml_all(_io.StringIO(text), ty)
    d = tempfile.mkdtemp(prefix='pvc_yaml_')
    try:
        path = _os.path.join(d, 'docs.yaml')
        with open(path, 'w') as f:
            f.write(text)
        return pio.from_yaml_all(pathlib.Path(path) if source == 'path' else path, ty)
    finally:
        import shutil
        shutil.rmtree(d, ignore_errors=True)


CUSTOM['pane.io:from_yaml_all.bounded'] = lambda m: [((lambda value, ty, _s=src: _yaml_all(value, ty, _s)), ['value', 'ty'], (v, ty), f'from_yaml_all[{src}]({v!r})')
                                                     for src in ('stream', 'path', 'str-path') for v, ty in
                                                     [([1, 2, 3], int), ([1, None, 3], t.Optional[int]), ([None, None], type(None)), ([{'n': 1}, {'n': 2}], PReq), ([], int)]]


# ---- C08: error trees ----------------------------------------------------------------------------------------------------------
def _render_instances(m):
    out, seen = [], set()
    for conv, origin in harvest():
        for v in VALUES:
            try:
                tree = conv.collect_errors(v)
            except Exception:
                continue
            if tree is None:
                continue
            key = repr(tree)[:300]
            if key in seen:
                continue
            seen.add(key)
            out.append((str, ['tree'], (tree,), f'str(error tree of {origin} on {v!r})'[:200]))
    return out


CUSTOM['pane.errors:render.bounded'] = _render_instances
TYPES.extend([t.Union[PAlias, int], t.Union[t.Annotated[int, Condition(raising_pred, 'raising')], str], t.List[t.Union[PAlias, PReq]]])
VALUES.extend([{'W': 1, 'width': 2}, [{'W': 1, 'width': 2}], [{'n': 'x'}]])


# ---- further pool entries: unions typing cannot flatten, overlapping tuple members, handler normalisation ---------------------
TYPES.extend([t.Optional[ValueOrList[int]], t.Union[str, t.Annotated[t.Union[int, float], Positive]],
              t.Union[t.Tuple[fractions.Fraction, int], t.Tuple[int, fractions.Fraction]], t.List[t.Any], t.Dict[str, t.Any], t.Set[Color],
              t.Union[Color, float]])
VALUES.extend([['1/2', 3], [3, '1/2'], (fractions.Fraction(1, 2), 3), (3, fractions.Fraction(1, 2)), [[1, 2], 'x'], -3, 2.5, {'a': [1, {'b': 2}]}])


class _Dbl(C.ScalarConverter):
    def __init__(self):
        super().__init__(int, int, 'an int', 'ints', lambda v: v * 2)


def _process_handler_instances(m):
    conv = _Dbl()
    out = []
    for h in (None, {int: conv}, {list: conv, tuple: conv}, [_h1, _h2], (_h1,), _h1, {}):
        out.append((m.ConverterHandlers._process, ['handlers'], (h,), f'ConverterHandlers._process({h!r})'))
    return out


CUSTOM['pane.convert:ConverterHandlers._process'] = _process_handler_instances
HANDLER_SETS.append(ConverterHandlers.make({list: _Dbl(), int: _Dbl()}))


# ---- _maybe_make_hash: every row of the rule table on a fresh class (the real function, a stand-in class object) ------------
def _mmh_instances(m):
    import itertools, types as _types
    import pane.classes as C
    out = []
    flds = tuple(PANE_CLASSES[0].__pane_info__.fields)
    for uh, eq, fr, explicit, has_eq in itertools.product([False, True], repeat=5):
        body = {}
        if explicit:
            body['__hash__'] = lambda self: 7
        if has_eq:
            body['__eq__'] = lambda self, other: self is other
        K = type('K', (object,), body)
        K.__pane_info__ = _types.SimpleNamespace(opts=C.PaneOptions(eq=eq, frozen=fr, unsafe_hash=uh))
        out.append((C._maybe_make_hash, ['cls', 'fields'], (K, flds), f'_maybe_make_hash(unsafe_hash={uh}, eq={eq}, frozen={fr}, explicit={explicit}, eq_defined={has_eq})'))
    return out


CUSTOM['pane.classes:_maybe_make_hash'] = _mmh_instances


# ---- PaneBase instance protocol (copy / deepcopy / replace / setattr / delattr) on instances of the pool classes ------------
class PMut(PaneBase, frozen=False):
    a: int = 1
    b: str = 'x'
    c: t.List[int] = field(default_factory=list)


class PFlags(PaneBase):
    a: int = 1
    secret: str = field(default='s', repr=False)
    note: str = field(default='n', compare=False)
    skip: int = field(default=0, exclude=True)


def _base_objs():
    out = [PFlags(), PFlags(a=2, secret='x', note='y', skip=3)]
    for cls, objs in _instances_of_classes():
        out += objs[:4]
    out += [PMut(), PMut(a=5), PMut.from_data({'b': 'q', 'c': [1, 2]}), PT(1), PT(1, 2, label='z'), PNest.from_data({'inner': {'n': 1}})]
    return out


def _copy_instances(m):
    import pane.classes as C
    return [(C.PaneBase.__copy__, ['self'], (o,), f'copy({o!r})') for o in _base_objs()]


def _deepcopy_instances(m):
    import pane.classes as C
    return [(C.PaneBase.__deepcopy__, ['self', 'memo'], (o, {}), f'deepcopy({o!r})') for o in _base_objs()]


def _replace_instances(m):
    import pane.classes as C
    out = []
    for o in _base_objs():
        names = [f.name for f in o.__pane_info__.fields if f.init]
        for ch in ({}, {names[0]: getattr(o, names[0])}, {names[-1]: getattr(o, names[-1])}, {names[0]: 'not valid for most'}):
            out.append(((lambda self, changes: C.PaneBase.__replace__(self, **changes)), ['self', 'changes'], (o, ch), f'replace({o!r}, **{ch!r})'))
    return out


def _setattr_instances(m):
    import pane.classes as C
    import copy as _copy
    out = []
    for o in _base_objs():
        for name, value in (('a', 7), (o.__pane_info__.fields[0].name, None), ('zz_new', 1)):
            out.append((C.PaneBase.__setattr__, ['self', 'name', 'value'], (_copy.copy(o), name, value), f'setattr({o!r}, {name!r}, {value!r})'))
    return out


CUSTOM['pane.classes:PaneBase.__copy__'] = _copy_instances
CUSTOM['pane.classes:PaneBase.__deepcopy__'] = _deepcopy_instances
CUSTOM['pane.classes:PaneBase.__replace__'] = _replace_instances
CUSTOM['pane.classes:PaneBase.__setattr__'] = _setattr_instances
CUSTOM['pane.classes:PaneBase.__delattr__'] = lambda m: [(__import__('pane.classes').classes.PaneBase.__delattr__, ['self', 'name'], (o, 'a'), f'delattr({o!r})') for o in _base_objs()]


def _repr_instances(m):
    import pane.classes as C
    return [(C.PaneBase.__repr__, ['self'], (o,), f'repr of {type(o).__name__}') for o in _base_objs()]


def _dict_instances(m):
    import pane.classes as C
    out = []
    for o in _base_objs():
        for so in (False, True):
            for rn in (None, 'camel', 'scream'):
                out.append(((lambda self, set_only, rename: C.PaneBase.dict(self, set_only=set_only, rename=rename)), ['self', 'set_only', 'rename'],
                            (o, so, rn), f'{o!r}.dict(set_only={so}, rename={rn!r})'))
    return out


CUSTOM['pane.classes:PaneBase.__repr__'] = _repr_instances
CUSTOM['pane.classes:PaneBase.dict'] = _dict_instances


# ---- constructor cases (bounded contract construct.bounded) -------------------------------------------------------------------
def _construct_case(cls, args, kwargs):
    try:
        return ('ok', cls(*args, **kwargs))
    except pane.ConvertError as e:
        return ('ConvertError', e)
    except TypeError as e:
        return ('TypeError', e)


def _construct_instances(m):
    cases = [
        (P2, ('a', 'b'), {}), (P2, (), {'a': 'x'}), (P2, (1,), {}), (P2, ('a',), {'a': 'b'}), (P2, (), {'zz': 1}),
        (PT, (1,), {}), (PT, (1, 2), {'label': 'q'}), (PT, (1, 3.0), {}), (PT, (True,), {}), (PT, (1,), {'hi': 3}), (PT, ('x',), {}),
        (PAlias, (3,), {}), (PAlias, (3, 1), {}), (PAlias, (3,), {'tags': ('a', 'b')}), (PAlias, (3,), {'tags': ['a', 1]}), (PAlias, (), {}),
        (PReq, (1,), {}), (PReq, (1, None), {}), (PReq, (1, 'm'), {}), (PReq, ('1',), {}),
        (PNest, (), {'inner': PReq(n=1)}), (PNest, (), {'inner': PReq(n=1), 'items': [PAlias(width=1), PAlias(width=2, height=2.5)]}),
        (PNest, (), {'inner': {'n': 1}, 'items': [{'W': 1}]}), (PNest, (), {'inner': PReq(n=1), 'items': [PAlias(width=1), {'width': 'bad'}]}),
        (PMut, (), {}), (PMut, (1,), {}), (PMut, (1.0,), {}), (PMut, (True, 'x'), {}), (PMut, (), {'c': (1, 2)}), (PMut, (), {'c': [PReq(n=1)]}),
        (PHook, (1, 2), {}), (PRen, ('a',), {}), (PRen, (), {'first_name': 'a', 'last_name': 'b'}),
    ]
    return [(_construct_case, ['cls', 'args', 'kwargs'], (c, a, k), f'{c.__name__}(*{a!r}, **{k!r})') for c, a, k in cases]


CUSTOM['pane.classes:construct.bounded'] = _construct_instances
VALUES.extend([{'width': 3, 'height': None}, {'lo': 1, 'hi': None}, {'a': 'x', 'b': None}, {'k': None}])

# error-tree shapes for the rendering contract: a chain (struct whose only failing field is a struct) that ALSO has missing / extra
# fields of its own; a union whose FIRST alternative is itself a union
TYPES.extend([{'inner': {'a': int}, 'y': int}, t.Union[t.Annotated[t.Union[int, float], Positive], t.List[str]],
              {'f': t.Optional[t.Annotated[t.Union[int, float], Positive]]}])
VALUES.extend([{'inner': {'a': 'x'}}, {'inner': {'a': 'x'}, 'y': 1, 'zz': 2}, {'inner': {'a': 'x'}, 'zz': 2}, {'f': -3}, {'f': 'q'}])


# ---- scalar rows / buildable types (bounded contracts in contracts/bounded_convert.py) ----------------------------------------
class SStr(str):
    pass


class SInt(int):
    pass


class MixedEnum(enum.Enum):
    A = 1
    B = 'x'


def _scalar_case(target, value):
    """(verdict, image, serialised image, re-parsed) at top level; the same verdict is required inside a list and a dataclass field"""
    try:
        x = pane.from_data(copy.deepcopy(value), target)
    except pane.ConvertError:
        verdict = ('ConvertError',)
    except Exception as e:      # noqa
        return ('exc:' + type(e).__name__,)
    else:
        ser = pane.into_data(x, target)
        verdict = ('ok', x, ser, pane.from_data(ser, target))
    # contexts: the verdict must not depend on where the value sits
    for ctx_ty, ctx_val in ((t.List[target], [value]), ({'f': target}, {'f': value})):
        try:
            pane.from_data(copy.deepcopy(ctx_val), ctx_ty)
            ok = True
        except pane.ConvertError:
            ok = False
        except Exception as e:  # noqa
            return ('exc:' + type(e).__name__ + ' in ' + str(ctx_ty),)
        if ok != (verdict[0] == 'ok'):
            return ('context-dependent verdict in ' + str(ctx_ty),)
    return verdict


_SCALAR_VALUES = [True, False, 0, 5, -1, 1.5, 2.0, 1 + 2j, 'x', '', 'abc', b'x', bytearray(b'y'), None, [1], ['a', 1], {'a': 1}, ()]
_SCALAR_TARGETS = [bool, int, float, complex, str, bytes, bytearray, type(None), SStr, SInt]
CUSTOM['pane.convert:scalar_rows.bounded'] = lambda m: [(_scalar_case, ['target', 'value'], (tg, v), f'from_data({v!r}, {tg.__name__})')
                                                        for tg in _SCALAR_TARGETS for v in _SCALAR_VALUES]


def _buildable_case(ty, good, bad):
    try:
        conv = make_converter(ty)
    except Exception as e:      # noqa
        return {'built': False, 'accepts': [], 'accepts_bad': [], 'error': f'{type(e).__name__}: {e}'}

    def acc(v):
        try:
            conv.convert(copy.deepcopy(v))
            return True
        except pane.ConvertError:
            return False
    return {'built': True, 'accepts': [acc(v) for v in good], 'accepts_bad': [acc(v) for v in bad]}


def _buildable_instances(m):
    cases = [(MixedEnum, [1, 'x'], [2, 'y', None, 1.5]), (Color, [c.value for c in Color][:2], ['nope', None]),
             (SStr, ['abc', ''], [1, ['a'], None]), (SInt, [1, True], ['1', 1.5]),
             (t.Optional[int], [1, None], ['x']), (t.Union[int, str], [1, 'x'], [None, 1.5])]
    try:
        cases.append((eval('int | str'), [1, 'x'], [None, 1.5]))           # PEP 604 spelling
        cases.append((eval('list[int] | None'), [[1], None], ['x', [1.5]]))
    except TypeError:
        pass
    return [(_buildable_case, ['ty', 'good', 'bad'], c, f'make_converter({c[0]!r})') for c in cases]


CUSTOM['pane.convert:buildable.bounded'] = _buildable_instances


def _class_roundtrip_case(obj):
    ty = type(obj)
    data = pane.into_data(obj, ty)
    try:
        back = pane.from_data(copy.deepcopy(data), ty)
    except pane.ConvertError as e:
        return ('ConvertError', str(e).splitlines()[0], data, None)
    return ('ok', back, data, pane.into_data(back, ty))


CUSTOM['pane.classes:class_roundtrip.bounded'] = lambda m: [(_class_roundtrip_case, ['obj'], (o,), f'class_roundtrip[{type(o).__name__}] {o!r}')
                                                           for o in _base_objs()]


def _fixed_point_case(value, ty):
    try:
        y = pane.convert(value, ty)
        z = pane.convert(y, ty)
    except pane.ConvertError as e:
        return ('ConvertError', str(e).splitlines()[0])
    except Exception as e:      # noqa
        return ('exc:' + type(e).__name__, str(e)[:80])
    return ('ok', y, z)


def _fixed_point_instances(m):
    from pane.types import Range
    cases = [
        (fractions.Fraction(1, 3), fractions.Fraction), (decimal.Decimal('1.50'), decimal.Decimal), (datetime.date(2023, 9, 5), datetime.date),
        (datetime.datetime(2023, 9, 5, 1, 2, 3), datetime.datetime), (datetime.time(1, 2, 3), datetime.time), (pathlib.PurePosixPath('/a/b'), pathlib.PurePosixPath),
        (re.compile('a+b'), re.Pattern), ({1, 2}, t.Set[int]), (frozenset({'a'}), t.FrozenSet[str]), (collections.deque([1, 2]), collections.deque),
        (Color.RED, Color), (True, bool), (5, int), (2.5, float), (1 + 2j, complex), ('s', str), (b'b', bytes), (None, type(None)),
        (PReq(n=1), PReq), (PNest(inner=PReq(n=1), items=[PAlias(width=1)]), PNest), ([PReq(n=1), PReq(n=2, m='q')], t.List[PReq]),
        ({'k': fractions.Fraction(1, 2)}, t.Dict[str, fractions.Fraction]), ([Color.RED], t.List[Color]), ((1, 'a'), t.Tuple[int, str]),
        ([datetime.date(2023, 9, 5)], t.List[datetime.date]), (P2(a='x', b='y'), P2), (PRen(first_name='a'), PRen), (PMut(a=2), PMut),
        (ValueOrList.from_val(5), ValueOrList[int]), (ValueOrList.from_list([1, 2]), ValueOrList[int]),
        (Range(0, 10, n=11), Range), (Range(0.0, 1.0, step=0.25), Range),
    ]
    return [(_fixed_point_case, ['value', 'ty'], c, f'fixed_point[{type(c[0]).__name__}] convert({c[0]!r}, {_tyrepr(c[1])})') for c in cases]


CUSTOM['pane.convert:fixed_point.bounded'] = _fixed_point_instances


def _cmp_instances(name):
    def gen(m):
        out = []
        for cls, objs in _instances_of_classes():
            fn = cls.__dict__.get(name)
            if fn is None or not objs or not hasattr(fn, '__code__'):
                continue
            pairs = [(a, b) for a in objs for b in objs][:16] + [(objs[0], PReq(n=1)), (objs[0], 3)]
            out += _closure_instances(fn, pairs, f'{cls.__name__}.{name}')
        return out
    return gen


for _n in ('__lt__', '__le__', '__gt__', '__ge__'):
    CUSTOM[f'pane.classes:_make_ord.<locals>.{_n}'] = _cmp_instances(_n)


# ---- data paths vs constructor (bounded contract data_paths.bounded) -------------------------------------------------------------
def _data_path_case(cls, data):
    inst = cls.from_data(copy.deepcopy(data))
    conv = make_converter(cls)
    if isinstance(data, abc.Mapping):
        by_name = {conv.fields[conv.field_map[k]].name: v for k, v in data.items() if k in conv.field_map}
        expect = cls(**copy.deepcopy(by_name))
        supplied = set(by_name)
    else:
        expect = cls(*copy.deepcopy(list(data)))
        supplied = {f.name for f, _ in zip([f for f in conv.fields if f.init and not f.kw_only], list(data))}
    again = cls.from_data(copy.deepcopy(data))
    fresh = all(getattr(inst, f.name) is not getattr(again, f.name)
                for f in conv.fields if isinstance(getattr(inst, f.name, None), (list, dict, set)) and f.name not in supplied)
    return {'same_value': (type(inst) is type(expect) and all(
                type(getattr(inst, f.name)) is type(getattr(expect, f.name)) and getattr(inst, f.name) == getattr(expect, f.name) for f in conv.fields)),
            'record': set(inst.__pane_set__), 'expected_record': set(expect.__pane_set__) | set(), 'supplied': supplied, 'fresh_defaults': fresh}


class PSpan(PaneBase, in_format=('tuple', 'struct')):
    start: int
    length: float = field(init=False, default=0.0)
    stop: int = 0
    tags: t.List[str] = field(default_factory=list)


def _data_path_instances(m):
    out = []
    classes = [c for c in PANE_CLASSES if not hasattr(c, '__post_init__')] + [PMut, PSpan]
    extra = [(2, 10), [2, 10, ['a']], {'start': 1}, {'start': 1, 'stop': 3, 'tags': ['q']}, {'first-name': 'a'}, {'firstName': 'a', 'lastName': 'b'}]
    for cls in classes:
        for v in VALUES + extra:
            if not isinstance(v, (abc.Mapping, list, tuple)):
                continue
            try:
                cls.from_data(copy.deepcopy(v))
            except Exception:
                continue
            out.append((_data_path_case, ['cls', 'data'], (cls, v), f'data_paths[{cls.__name__}] from_data({v!r})'))
    return out


CUSTOM['pane.classes:data_paths.bounded'] = _data_path_instances

TYPES.extend([t.Dict[t.Any, str], t.Dict[t.Any, t.Any]])
VALUES.extend([{1: 'a', 2.5: 'b'}, {0: 'off', 'max': 'full'}, {1: 'a', fractions.Fraction(1, 2): 'b'}, {'n': 5, 'm': [1, 2]}, [5, 'x', [1]]])


# ---- C10: LRU mode of KeyCache, bounded domain of operation sequences ---------------------------------------------------
def _lru_drive(maxsize, ops):
    """Run `ops` against a real KeyCache(maxsize); per step: (result, inner called?, cached keys, keys along the recency list)."""
    import importlib
    um = importlib.import_module('pane.util')
    calls = []

    def inner(x):
        calls.append(x)
        return ('r', x)
    kc = um.KeyCache(inner, lambda x: x, maxsize)
    out = []
    for x in ops:
        n = len(calls)
        r = kc(x)
        walk, link, steps = [], kc._root[um.NEXT], 0
        while link is not kc._root and steps < 64:
            # every link is the one the table holds for its key, and the back pointers mirror the forward ones
            ok = kc.cache.get(link[um.KEY]) is link and link[um.NEXT][um.PREV] is link and link[um.PREV][um.NEXT] is link
            walk.append(link[um.KEY] if ok else ('broken', link[um.KEY]))
            link = link[um.NEXT]; steps += 1
        out.append((r, len(calls) > n, list(kc.cache), walk))
    return out


def _lru_instances(m):
    import itertools
    out = []
    for ms in (0, 1, 2, 3):
        for n in range(0, 6):
            for ops in itertools.product(range(4), repeat=n):
                out.append((_lru_drive, ['maxsize', 'ops'], (ms, ops), f'KeyCache(maxsize={ms}) on {ops}'))
    return out


CUSTOM['pane.util:KeyCache.__call__.lru.bounded'] = _lru_instances
