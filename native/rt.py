"""Run-time meaning of the sidecar specification vocabulary (executed under the repository's interpreter).

The same contract clauses that pvc discharges symbolically are evaluated here on concrete values against
the REAL functions: used to replay failing obligations (find the concrete failing input) and as a
cross-check of contracts and engine on the unchanged tree.  Quantifiers over all values range over a finite
universe collected from the arguments and the result (complete for the key-guarded quantifiers used in the
contracts); clauses that need an unbounded witness raise NotCheckable and are skipped.
"""
import collections.abc as abc
import datetime
import decimal
import fractions
import re
import traceback as _traceback

import pane
import pane.errors as _err
from pane.errors import ParseInterrupt, ConvertError


class NotCheckable(Exception):
    pass


class _UndefT:
    def __repr__(self):
        return '<undef>'

    def __bool__(self):
        return False

    def _f(self, *a):
        return False
    __lt__ = __le__ = __gt__ = __ge__ = _f

    def __eq__(self, o):
        return o is self

    def __hash__(self):
        return 0

    def __getattr__(self, n):
        if n.startswith('__'):
            raise AttributeError(n)
        return self

    def __add__(self, o):
        return self
    __radd__ = __sub__ = __rsub__ = __add__


UNDEF = _UndefT()
UNIVERSE = []


def set_universe(objs):
    seen, out = set(), []

    def add(x):
        try:
            h = (type(x).__name__, x)
            if h in seen:
                return
            seen.add(h)
        except Exception:     # unhashable, or a half-built instance whose generated __hash__ reads a missing field
            return
        out.append(x)

    def walk(o, d):
        if d > 4:
            return
        add(o)
        if isinstance(o, abc.Mapping):
            for k, v in list(o.items())[:20]:
                add(k)
                walk(v, d + 1)
        elif isinstance(o, (list, tuple, set, frozenset)):
            for v in list(o)[:20]:
                walk(v, d + 1)
        elif hasattr(o, '__dict__') and not isinstance(o, type):
            for v in list(vars(o).values())[:30]:
                walk(v, d + 1)
        elif hasattr(o, '__slots__'):
            pass
    for o in objs:
        walk(o, 0)
    import typing as _ty
    for x in (0, 1, 2, -1, 'x', '', None, True, 'zz_unused', (), (int,), int, list, tuple, str, _ty.List[int]):
        add(x)
    UNIVERSE[:] = out


# ---- quantifiers ------------------------------------------------------------------------------------
def forall(rng, f):
    return all(f(i) for i in rng)


def exists(rng, f):
    return any(f(i) for i in rng)


def forall_val(f):
    return all(f(k) for k in UNIVERSE)


def exists_val(f, hint=None):
    """A witness found is conclusive. Without one: if the clause names THE canonical witness (hint=, for clauses whose first
    conjuncts determine the value completely) its failure is conclusive too; otherwise the clause is not checkable natively."""
    if hint is not None:
        try:
            cand = hint()
        except Exception:
            cand = UNDEF
        if cand is not UNDEF and f(cand):
            return True
    for k in UNIVERSE:
        try:
            if f(k):
                return True
        except NotCheckable:
            raise
        except Exception:
            continue
    if hint is not None:
        return False
    raise NotCheckable('exists_val needs an unbounded witness')


def implies(a, b):
    return (not a) or bool(b)


def iff(a, b):
    return bool(a) == bool(b)


def ite(c, a, b):
    return a if c else b


# ---- IConv ghosts -------------------------------------------------------------------------------------
def acc(c, v):
    if c is UNDEF:
        return False
    try:
        c.try_convert(v)
        return True
    except ParseInterrupt:
        return False


def out(c, v):
    if c is UNDEF:
        return UNDEF
    try:
        return c.try_convert(v)
    except ParseInterrupt:
        return UNDEF


def err(c, v):
    if c is UNDEF:
        return UNDEF
    return c.collect_errors(v)


def ser(c, v):
    if c is UNDEF or v is UNDEF:
        return UNDEF
    try:
        return c.into_data(v)
    except Exception:
        return UNDEF


def expected_of(c, plural=False):
    return c.expected(plural)


def is_none(x):
    return x is None


def hashable(v):
    try:
        hash(v)
        return True
    except TypeError:
        return False


def truthy(x):
    return bool(x)


def callraises(fn, *args, **kw):
    try:
        fn(*[_arg(a) for a in args], **kw)
        return False
    except Exception:
        return True


def callv(fn, seq=None, kwmap=None, **named):
    try:
        return fn(*(list(seq) if seq is not None else []), **{**(dict(kwmap) if kwmap is not None else {}), **named})
    except Exception:
        return UNDEF


def callvraises(fn, seq=None, kwmap=None, **named):
    try:
        fn(*(list(seq) if seq is not None else []), **{**(dict(kwmap) if kwmap is not None else {}), **named})
        return False
    except Exception:
        return True


def call(fn, *args, **kw):
    try:
        return fn(*[_arg(a) for a in args], **kw)
    except Exception:
        return UNDEF


class _Gen(tuple):
    pass


def _arg(a):
    return iter(a) if isinstance(a, _Gen) else a


def gen_of(n, f):
    return _Gen(f(i) for i in range(n))


def exc_is(exc, cls):
    return isinstance(exc, cls)


catches = exc_is


def isinst_dyn(v, c):
    return isinstance(v, c)


def is_int_key(k):
    return type(k) is int


def int_key(k):
    return k if isinstance(k, int) and not isinstance(k, bool) else UNDEF


def attr(o, name):
    return getattr(o, name, UNDEF)


def attr_named(o, name):
    return getattr(o, name, UNDEF)


def dynattr(o, name):
    return getattr(o, name, UNDEF) if isinstance(name, str) else UNDEF


def has_attr(o, name):
    # special methods are looked up on the type (len(list) fails although list.__len__ exists)
    if name.startswith('__') and name.endswith('__'):
        return hasattr(type(o), name)
    return hasattr(o, name)


def typeof(o):
    return UNDEF if o is UNDEF else type(o)


def lt(a, b):
    try:
        return bool(a < b)
    except TypeError:
        return False


def isfinite(v):
    import math
    try:
        return math.isfinite(v)
    except (TypeError, ValueError, OverflowError):
        return False


# ---- containers -----------------------------------------------------------------------------------------
def _strict_in(m, k):
    """membership without Python's cross-kind equality (True == 1 == 1.0): assumption A-eq of the model"""
    try:
        if k not in m:
            return False
    except TypeError:
        return False
    if isinstance(k, (bool, int, float, complex)):
        try:
            return any(type(k2) is type(k) and k2 == k for k2 in m)
        except TypeError:
            return True
    return True


def mhas(m, k):
    return _strict_in(m, k)


def mget(m, k):
    try:
        return m[k] if _strict_in(m, k) else UNDEF
    except (TypeError, KeyError, IndexError):
        return UNDEF


def shas(s, k):
    return _strict_in(s, k)


def without_key(m, k):
    d = dict(m)
    d.pop(k, None)
    return d


def as_map(x):
    return x


as_seq = as_set = as_map


def sat(s, i):
    try:
        if isinstance(s, (set, frozenset)):
            s = list(s)         # iteration order (what a loop over the set sees)
        return s[i] if (i is not UNDEF and 0 <= i < len(s)) else UNDEF
    except (TypeError, KeyError, IndexError):
        return UNDEF


def slen(s):
    try:
        return len(s)
    except TypeError:
        return 0


mlen = slen
card = slen


def key_at(m, i):
    try:
        ks = list(m)
        return ks[i] if 0 <= i < len(ks) else UNDEF
    except TypeError:
        return UNDEF


def idx_of(m, k):
    try:
        return list(m).index(k)
    except (ValueError, TypeError):
        return 10 ** 9


def zlen(a, b):
    return min(a, b)


def nth_where(n, pred, j):
    ks = [i for i in range(n) if pred(i)]
    return ks[j] if (j is not UNDEF and 0 <= j < len(ks)) else UNDEF


def count_where(n, pred):
    return sum(1 for i in range(n) if pred(i))


def re_compile_raises(s):
    try:
        re.compile(s)
        return False
    except Exception:
        return True


def re_compile(s):
    try:
        return re.compile(s)
    except Exception:
        return UNDEF


def methraises(name, recv, *args):
    try:
        getattr(recv, name)(*args)
        return False
    except Exception:
        return True


def methcall(name, recv, *args):
    try:
        return getattr(recv, name)(*args)
    except Exception:
        return UNDEF


def kept_seq(target, n, keep, elem):
    xs = [elem(i) for i in range(n) if keep(i)]
    return tuple(xs) if target == 'tuple' else xs


def get_origin(ty):
    import typing
    try:
        return typing.get_origin(ty)
    except Exception:
        return UNDEF


def get_args(ty):
    import typing
    try:
        return typing.get_args(ty)
    except Exception:
        return ()


def issub(a, b):
    try:
        return issubclass(a, b)
    except TypeError:
        return False


def isabstract(c):
    import inspect
    return inspect.isabstract(c)


def callraises_as(cname, fn, *args, **kw):
    import builtins
    cls = getattr(builtins, cname, Exception)
    try:
        fn(*args, **kw)
        return False
    except cls:
        return True
    except Exception:
        return False


def _is_dc(x):
    import dataclasses as _dc
    return _dc.is_dataclass(x) and not isinstance(x, type)


def rt_eq(a, b, _d=0):
    """== of the model: Python equality, structural for converter objects that define no __eq__"""
    if not (_is_dc(a) and _is_dc(b)):
        try:
            if a == b:
                return True
        except Exception:
            pass
    import types as _types
    import dataclasses as _dc
    if isinstance(a, _traceback.TracebackException) and isinstance(b, _traceback.TracebackException):
        # the same failure reached through different call stacks is the same cause
        return ''.join(a.format_exception_only()) == ''.join(b.format_exception_only())
    if isinstance(a, _types.FunctionType) and isinstance(b, _types.FunctionType) and _d < 6:
        # two closures over the same code with equal captured values are the same function value
        if a.__code__ is not b.__code__:
            return False
        ca = [c.cell_contents for c in (a.__closure__ or ())]
        cb = [c.cell_contents for c in (b.__closure__ or ())]
        return len(ca) == len(cb) and all(x is y or rt_eq(x, y, _d + 1) for x, y in zip(ca, cb))
    if _dc.is_dataclass(a) and not isinstance(a, type) and type(a) is type(b) and _d < 6:
        return all(rt_eq(getattr(a, f.name, None), getattr(b, f.name, None), _d + 1) for f in _dc.fields(a) if f.compare)
    if hasattr(type(a), '__pane_info__') and type(a) is type(b) and _d < 6:
        # pane instances (possibly half-built by an unchecked constructor): the stored attributes
        da, db = vars(a), vars(b)
        return da.keys() == db.keys() and all(rt_eq(da[k], db[k], _d + 1) for k in da) \
            and getattr(a, '__pane_set__', None) == getattr(b, '__pane_set__', None)
    import pane.converters as _C
    if isinstance(a, _C.Converter) and type(a) is type(b) and type(a).__eq__ is object.__eq__ and _d < 6:
        da, db = vars(a), vars(b)
        return da.keys() == db.keys() and all(rt_eq(da[k], db[k], _d + 1) for k in da)
    if isinstance(a, (list, tuple)) and type(a) is type(b) and len(a) == len(b) and _d < 6:
        return all(rt_eq(x, y, _d + 1) for x, y in zip(a, b))
    if isinstance(a, dict) and isinstance(b, dict) and a.keys() == b.keys() and _d < 6:
        return all(rt_eq(a[k], b[k], _d + 1) for k in a)
    return False


def ext(name, *args, **kw):
    raise NotCheckable('external call value')


def did_call(name, *args, **kw):
    raise NotCheckable('call log')


def made(x):
    raise NotCheckable('call log')


def exited(cm):
    raise NotCheckable('context-manager log')


def cm_enter(cm):
    raise NotCheckable('context-manager')


def clsref_dotted(name):
    import importlib
    mod, _, attr_ = name.rpartition('.')
    if not mod:
        return importlib.import_module(name)
    return getattr(importlib.import_module(mod), attr_)


def forall_bools4(f):
    import itertools
    return all(f(*c) for c in itertools.product([False, True], repeat=4))


def fnref(key):
    import importlib
    mod, qual = key.split(':')
    o = importlib.import_module(mod)
    for p in qual.split('.'):
        o = getattr(o, p)
    return o


class _Hash:
    def __init__(self, x):
        self.x = x

    def __eq__(self, o):
        return o == hash(self.x) if isinstance(o, int) else (isinstance(o, _Hash) and o.x == self.x)

    def __hash__(self):
        return hash(self.x)


def hash_of(x):
    try:
        return hash(x)
    except TypeError:
        return UNDEF


def called(fn):
    raise NotCheckable('call log')


def methv(name, recv, seq, kw):
    try:
        return getattr(recv, name)(*seq, **(kw or {}))
    except Exception:
        return UNDEF


def ret(key, *args):
    """the value a call returns; arguments are given in declaration order (keyword-only parameters included)"""
    import inspect
    f = fnref(key)
    f = getattr(f, 'inner_f', f)
    try:
        ps = list(inspect.signature(f).parameters.values())
        pos, kw = [], {}
        for p, a in zip(ps, args):
            if p.kind == p.KEYWORD_ONLY:
                kw[p.name] = a
            else:
                pos.append(a)
        return f(*pos, **kw)
    except Exception:
        return UNDEF


retc = ret


def ret_make_converter(ty, handlers):
    from pane.convert import make_converter
    if ty is UNDEF or handlers is UNDEF:
        return UNDEF
    try:
        return make_converter(ty, handlers)
    except Exception:
        return UNDEF


def ret_into_data(val):
    from pane.convert import into_data
    try:
        return into_data(val)
    except Exception:
        return UNDEF


def clsref(name):
    import importlib
    for m in (importlib.import_module('pane.convert'), importlib.import_module('pane.classes'), importlib.import_module('pane.converters')):
        if hasattr(m, name):
            o = getattr(m, name)
            if isinstance(o, type(importlib)) and hasattr(o, name):   # module datetime -> class datetime.datetime
                return getattr(o, name)
            return o
    import datetime as _dt
    if name in ('date', 'time', 'datetime'):
        return getattr(_dt, name)
    return UNDEF


def id_of(x):
    return id(x)


def is_fresh(x):
    raise NotCheckable('freshness is a static notion')


def old(x):
    raise NotCheckable('old')


OLD = {}
OLD_PHASE = ['post']


def old_get(key, thunk):
    if OLD_PHASE[0] == 'pre':
        v = thunk()
        import types as _t
        if isinstance(v, (_t.MappingProxyType, dict)):
            v = dict(v)
        elif isinstance(v, (list, set)):
            v = type(v)(v)
        OLD[key] = v
        return v
    if key not in OLD:
        raise NotCheckable('old value not recorded')
    return OLD[key]


def deepcopy_of(x):
    import copy as _copy
    return _copy.deepcopy(x)


def closure_of(f):
    f = getattr(f, '__func__', f)
    return f'{f.__module__}:{f.__qualname__}' if hasattr(f, '__qualname__') else UNDEF


def closure_free(f, name):
    f = getattr(f, '__func__', f)
    code = getattr(f, '__code__', None)
    if code is None or name not in code.co_freevars:
        return UNDEF
    return f.__closure__[code.co_freevars.index(name)].cell_contents


# ---- ghosts with a native definition -------------------------------------------------------------------------
def ghost(name, *args):
    f = GHOSTS.get(name)
    if f is None:
        raise NotCheckable('ghost ' + name)
    return f(*args)


def _tuple_hook(self, val):
    vals = []
    convs = [c for f, c in zip(self.fields, self.field_converters) if f.init]
    for c, v in zip(convs, val):
        try:
            vals.append(c.try_convert(v))
        except ParseInterrupt:
            return False
    try:
        self.cls.make_unchecked(*vals)
        return False
    except Exception:
        return True


def _struct_hook(self, val):
    values = {}
    for k, v in val.items():
        if k not in self.field_map:
            continue
        i = self.field_map[k]
        f = self.fields[i]
        if f.name in values:
            continue
        try:
            values[f.name] = self.field_converters[i].try_convert(v)
        except ParseInterrupt:
            return False
    try:
        self.cls.make_unchecked(**values)
        return False
    except Exception:
        return True


GHOSTS = {'tuple_hook': _tuple_hook, 'struct_hook_fast': _struct_hook, 'struct_hook_diag': _struct_hook}


def namespace():
    """Names visible to the sidecar files when they are executed natively."""
    import os
    import pathlib
    import enum
    import typing
    import importlib
    ns = {k: v for k, v in globals().items() if not k.startswith('_')}
    ns.update({
        'Sequence': abc.Sequence, 'Mapping': abc.Mapping, 'Iterable': abc.Iterable, 'Set': abc.Set,
        'MutableSequence': abc.MutableSequence, 'MutableMapping': abc.MutableMapping,
        'Pattern': re.Pattern, 'NoneType': type(None), 'Decimal': decimal.Decimal, 'Fraction': fractions.Fraction,
        'datetime': datetime.datetime, 'date': datetime.date, 'time': datetime.time, 'PathLike': os.PathLike,
        'PurePath': pathlib.PurePath, 'Enum': enum.Enum, 'TracebackException': _traceback.TracebackException,
        'MISSING': importlib.import_module('pane.field')._MISSING,
        'PaneBase': pane.PaneBase,
    })
    for n in ('ParseInterrupt', 'ConvertError', 'WrongTypeError', 'WrongLenError', 'ConditionFailedError',
              'DuplicateKeyError', 'ProductErrorNode', 'SumErrorNode', 'ErrorNode', 'UnsupportedAnnotation'):
        ns[n] = getattr(_err, n)
    import pane.annotations as _ann
    import pane.types as _pty
    ns['ValueOrList'] = _pty.ValueOrList
    ns['ValueOrListConverter'] = _pty.ValueOrListConverter
    import dataclasses as _dcs
    ns['FrozenInstanceError'] = _dcs.FrozenInstanceError
    import io as _io
    ns['StringIO'] = _io.StringIO
    import types as _tys
    ns['function'] = _tys.FunctionType
    ns['Condition'] = _ann.Condition
    ns['Tagged'] = _ann.Tagged
    import typing as _t
    ns['ANY'] = _t.Any
    ns['ANNOTATED'] = _t.Annotated
    ns['UNION'] = _t.Union
    ns['LITERAL'] = _t.Literal
    ns['ELLIPSIS'] = Ellipsis
    ns['TypeVar'] = _t.TypeVar
    ns['ForwardRef'] = _t.ForwardRef
    ns['NotImplementedV'] = NotImplemented
    _cv = importlib.import_module('pane.convert')
    ns['ConverterHandlers'] = _cv.ConverterHandlers
    import pane.converters as _C
    for _n in dir(_C):
        if _n.endswith('Converter'):
            ns[_n] = getattr(_C, _n)
    ns['BASIC_CONVERTERS'] = _C._BASIC_CONVERTERS
    ns['BASIC_WITH_ARGS'] = _C._BASIC_WITH_ARGS
    ns['GLOBAL_HANDLERS'] = _cv._GLOBAL_HANDLERS
    ns['ABSTRACT_MAPPING'] = _cv._ABSTRACT_MAPPING
    try:
        import numpy as _np
        ns['ndarray'] = _np.ndarray
    except Exception:
        ns['ndarray'] = type('ndarray', (), {})
    import io as _io
    ns['IOBase'] = _io.IOBase
    ns['TextIOWrapper'] = _io.TextIOWrapper
    ns['BufferedIOBase'] = _io.BufferedIOBase
    ns['TextIO'] = _t.TextIO
    ns['BinaryIO'] = _t.BinaryIO
    ns['List'] = _t.List
    ns['Field'] = importlib.import_module('pane.field').Field
    ns['FieldSpec'] = importlib.import_module('pane.field').FieldSpec
    return ns
