"""Run every registered quick check on the unchanged tree: all must exit 0, print no VIOLATION, and leave valid evidence."""
import json, subprocess, sys, os, time
import jsonschema
os.chdir('/verif')
m = json.load(open('MANIFEST.json'))
schema = json.load(open('/root/.vp/EVIDENCE.schema.json'))
bad = 0
only = set(sys.argv[1:])
for c in m['checks']:
    p = c['property_id']
    if only and p not in only:
        continue
    ev = c['evidence_file']
    if os.path.exists(ev):
        os.remove(ev)
    t = time.time()
    r = subprocess.run(c['quick_cmd'], shell=True, capture_output=True, text=True, cwd='/verif', env={**os.environ, 'VERIF_SEED': '1', 'VERIF_TIER': 'quick'})
    lines = [l for l in r.stdout.splitlines() if l.startswith(('VIOLATION', 'UNDECIDED', 'CHECKER-ERROR', 'VACUITY', 'KNOWN-FINDING'))]
    summ = [l for l in r.stdout.splitlines() if l.startswith(p + ' [')]
    ok = r.returncode == 0 and not any(l.startswith('VIOLATION') for l in lines)
    try:
        e = json.load(open(ev))
        jsonschema.validate(e, schema)
        if e['level'] != c['level_claimed']['category']:
            ok = False; lines.append(f"LEVEL MISMATCH evidence={e['level']} manifest={c['level_claimed']['category']}")
        if e['level'] == 'proof' and e['coverage']['obligations'] != e['coverage']['discharged']:
            ok = False; lines.append('obligations != discharged')
    except Exception as ex:
        ok = False; lines.append(f'EVIDENCE INVALID: {ex}')
    print(('ok  ' if ok else 'FAIL'), summ[0] if summ else f'{p}: rc={r.returncode}', f'({time.time()-t:.0f}s)')
    for l in lines[:4]:
        print('     ', l[:220])
    if not ok:
        bad += 1
        print(r.stdout[-600:], r.stderr[-400:])
sys.exit(1 if bad else 0)
