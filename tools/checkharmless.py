"""False-alarm test: apply each behaviour-preserving edit under harmless/<name>/patch.diff to a scratch copy of /repo/pane and run
the registered quick check of every property whose contracts mention a function the edit touches (all properties if it touches
code that is not under contract). A check must exit 0 (held) or 2 (undecided - the proof needs attention); exit 1 is a FALSE ALARM.
usage: checkharmless.py [names...]"""
import sys, os, json, shutil, subprocess, tempfile, time
from concurrent.futures import ThreadPoolExecutor

HERE = os.path.dirname(os.path.dirname(os.path.abspath(__file__)))
sys.path.insert(0, HERE)
from pvc.repoindex import RepoIndex          # noqa
from pvc.engine import Sidecar               # noqa
from pvc.run import augment                  # noqa

ALL = [f'C{i:02d}' for i in range(1, 21)]


def props_for(d):
    a, b = RepoIndex('/repo'), RepoIndex(d)
    side = augment(Sidecar(os.path.join(HERE, 'contracts')), a)
    changed = [k for k in set(a.funcs) | set(b.funcs) if (a.funcs.get(k) and a.funcs[k].src) != (b.funcs.get(k) and b.funcs[k].src)]
    props, uncontracted = set(), []
    for k in changed:
        hit = [c for ck, c in side.contracts.items() if ck == k or ck.startswith(k + '.<locals>.') or k.startswith(ck.split('@')[0] + '.<locals>.')]
        if hit:
            for c in hit:
                props |= set(c.all_props())
        else:
            uncontracted.append(k)
    if uncontracted or not changed:
        return ALL, changed
    return sorted(props), changed


def one(n):
    patch = os.path.join(HERE, 'harmless', n, 'patch.diff')
    d = tempfile.mkdtemp(prefix='pvchl_')
    try:
        shutil.copytree('/repo/pane', os.path.join(d, 'pane'))
        p = subprocess.run(['patch', '-p1', '-s', '-i', patch], cwd=d, capture_output=True, text=True)
        if p.returncode != 0:
            return n, 'PATCH-FAILED', [], []
        props, changed = props_for(d)
        out = []
        for prop in props:
            t = time.time()
            r = subprocess.run(['python3-vt', f'{HERE}/check.py', prop, '--repo', d], capture_output=True, text=True, cwd=HERE,
                               env={**os.environ, 'PVC_EVIDENCE_DIR': os.path.join(d, '_evidence'), 'PVC_NO_MUTANTS': '1',
                                    'PVC_CACHE': os.environ.get('PVC_CACHE', os.path.join(HERE, '.cache', 'pvc'))})
            lines = [l.strip() for l in r.stdout.splitlines() if 'failed obligation' in l or l.startswith('UNDECIDED') or l.startswith('CHECKER-ERROR')]
            out.append((prop, r.returncode, round(time.time() - t), lines[:2]))
        return n, 'RAN', out, changed
    finally:
        shutil.rmtree(d)


names = sys.argv[1:] or sorted(os.listdir(os.path.join(HERE, 'harmless')))
with ThreadPoolExecutor(4) as ex:
    for n, st, out, changed in ex.map(one, names):
        if st != 'RAN':
            print(f'{n}: {st}', flush=True)
            continue
        worst = max([rc for _p, rc, _s, _l in out] or [0])
        tag = {0: 'QUIET', 1: 'FALSE-ALARM', 2: 'UNDECIDED', 3: 'CHECKER-ERROR'}.get(worst, str(worst))
        print(f'{n}: {tag} props={len(out)} changed={",".join(c.split(":")[1] for c in changed)[:120]}', flush=True)
        for prop, rc, secs, lines in out:
            if rc != 0:
                print(f'    {prop} rc={rc} ({secs}s) {lines[0][:220] if lines else ""}', flush=True)
