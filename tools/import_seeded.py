"""Verify and import sub-agent seeded changes: import_seeded.py <PROP> (reads /tmp/wt_<PROP>/out/*)."""
import sys, os, json, subprocess, shutil, glob
prop = sys.argv[1]
rnd = sys.argv[2] if len(sys.argv) > 2 else ''          # e.g. "r2": reads /tmp/w2_<PROP>, writes seeded/<PROP>_r2_<n>
wt = (f'/tmp/w{rnd[1:]}_{prop}' if rnd.startswith('r') else f'/tmp/w2_{prop}') if rnd else f'/tmp/wt_{prop}'
env = {**os.environ, 'PYTHONPATH': wt, 'PYTHONDONTWRITEBYTECODE': '1'}
def sh(cmd, **kw):
    return subprocess.run(cmd, shell=True, cwd=wt, capture_output=True, text=True, env=env, **kw)
def tests():
    p = sh('/venv/bin/python -m pytest -q -p no:cacheprovider --timeout=900 --continue-on-collection-errors 2>&1 | tail -1')
    return p.stdout.strip()
sh('git checkout -- pane')
base = tests()
print('baseline:', base)
for d in sorted(glob.glob(f'{wt}/out/*')):
    n = os.path.basename(d)
    if not os.path.exists(f'{d}/patch.diff'):
        continue
    sh('git checkout -- pane')
    d0 = sh(f'/venv/bin/python out/{n}/demo.py').returncode
    ap = sh(f'git apply out/{n}/patch.diff')
    if ap.returncode != 0:
        print(n, 'patch does not apply', ap.stderr); continue
    t = tests()
    d1 = sh(f'/venv/bin/python out/{n}/demo.py').returncode
    sh('git checkout -- pane')
    ok = ('218 passed' in t and '9 failed' in t) and d0 == 0 and d1 != 0
    print(n, 'tests:', t, '| demo clean:', d0, 'patched:', d1, '->', 'KEEP' if ok else 'REJECT')
    if ok:
        dst = f'/verif/seeded/{prop}_{rnd}_{n}' if rnd else f'/verif/seeded/{prop}_{n}'
        os.makedirs(dst, exist_ok=True)
        for f in ('patch.diff', 'demo.py'):
            shutil.copy(f'{d}/{f}', f'{dst}/{f}')
        meta = json.load(open(f'{d}/meta.json'))
        meta['confirmed'] = {'tests_with_patch': t, 'demo_exit_clean': d0, 'demo_exit_patched': d1,
                             'how': 'applied in a scratch worktree, baseline test command, demo before/after'}
        json.dump(meta, open(f'{dst}/meta.json', 'w'), indent=1)
