"""Regenerate /verif/MANIFEST.json from the table below (claimed properties) + properties.jsonl."""
import json
import os

HERE = os.path.dirname(os.path.dirname(os.path.abspath(__file__)))

TRUST = ("Trusted base: the pvc engine itself (ast -> symbolic execution -> z3; cross-checked by seeded faults and a native run-time "
         "evaluation of the same contracts on the real code); z3 (python wheel 5.1, Debian 4.8.12 as second back end); the IConv interface contract for "
         "child/user converters; user callables deterministic and non-mutating; Python == modelled as identity of abstract values; "
         "class lattice read from CPython on every run; structural induction over the converter tree is a meta-argument. "
         "Per-function assumptions are listed in evidence coverage.trusted_base.")

CLAIMS = {
    # id: (text, technique, design_ref, extra note)
}


def claim(pid, text, note='', technique='contract-based deductive verification: sidecar contracts on the real functions, VCs from the AST by symbolic execution, discharged by z3',
          ref='DESIGN.md section 9'):
    CLAIMS[pid] = (text, technique, ref, note)


claim('C01', "make_converter's dispatch (which converter, with which arguments, in which precedence) and every try_convert under contract are proved: "
      "a conversion returns iff the class acceptance predicate (written from the documented element-wise rules) holds and returns the specified image; "
      "Converter.convert / from_data are proved against the interface contract. Unbounded in nesting depth, container length, number of members/fields.",
      note="The rows of the scalar table and the type spellings make_converter accepts are decided by BOUNDED run-time contracts (scalar_rows.bounded, buildable.bounded), never counted as proved. Not under contract: NestedSequenceConverter / numpy arrays. DatetimeConverter: stdlib .date()/.time()/combine/fromisoformat assumed.")
claim('C02', "Kind gates (data_is_sequence / data_is_mapping), the scalar allowed-kinds gate and the dataclass layout gate are proved; every composite passes "
      "each element unchanged to the element converter (acceptance predicates quantify over acc(child, element)), so the embedding-context dimension collapses.")
claim('C03', "For each converter class, try_convert (returns iff ACC) and collect_errors (None iff ACC) are proved against the SAME acceptance predicate; "
      "Converter.convert is proved never to reach its RuntimeError branch.",
      note="PaneConverter: the two construction paths are assumed to agree on __post_init__ failure (listed).")
claim('C04', "Exceptional postconditions: only ParseInterrupt leaves a try_convert, nothing leaves a collect_errors, only ConvertError (or the type-building "
      "TypeError / UnsupportedAnnotation, raised before data is looked at) leaves convert / from_data; every may-raise operation forks a raising path that must be caught or infeasible.",
      note="make_converter's own exceptional clause is assumed (converter constructors, _converter protocol methods, custom handlers).")
claim('C05', "into_data of every converter class is proved against its serialisation specification (element-wise, order preserved, Any-typed elements by runtime type "
      "with the handlers, dataclass output layout / output names / exclusion); FieldSpec.make_field is proved to keep the output name among the input names "
      "for the standard and alias configurations.",
      note="The composed round-trip lemma from_data(into_data(x)) == x is NOT discharged as one obligation: it follows from ser/acc/out clauses per class plus stdlib inverse pairs (assumed). "
           "BOUNDED: class_roundtrip.bounded (pool dataclass instances over layouts / renaming / aliases) and scalar_rows.bounded. "
           "Open findings: tuple / struct output includes keyword-only / init=False fields that the same layout refuses on input.")
claim('C06', "convert is proved to be from_data(into_data(x, None), T); into_data(x, None) keeps interchange scalars; the generated __init__ is proved to convert each "
      "supplied argument with convert(arg, field type); converters that read their own output (Pattern, Enum) are under contract.",
      note="Per-type fixed points (Fraction, Decimal, datetime, paths, patterns, sets, enum members, dataclass instances, pane.types helpers) are decided by the BOUNDED contract fixed_point.bounded over natively built values; stdlib inverse pairs assumed. Open finding: pane.types.Range is not a fixed point.")
claim('C07', "Tree-shape postconditions of every composite diagnostic pass: children keyed by exactly the rejected positions/keys, each child equal to the "
      "element converter's own tree, missing/extra exact, union children one per member in order, leaves record the offending value.")
claim('C09', "modifies-nothing frame condition on every function under contract: a mutating operation is admitted only on a value created inside the function "
      "(provenance check during symbolic execution); any mutation of a caller-owned object is a failing 'frame' obligation; the run-time contract check "
      "snapshots and compares the arguments of every call.")
claim('C10', "KeyCache.__call__ (unbounded mode) proved transparent (results and exceptions) under 'equal keys mean interchangeable arguments', with a ghost history invariant and a "
      "retention obligation (arguments behind id()-based keys stay referenced); lemma: make_converter's key identifies its arguments among live objects; make_converter proved "
      "to be memoised in exactly that mode (decorator obligation); mapping-form handlers proved to be wrapped in a new plain function per call; every converter method proved "
      "not to store state on the (shared, memoised) converter or in module-level state (frame obligations). BOUNDED: the LRU mode (maxsize given; cyclic list of aliased "
      "lists, outside the symbolic heap model) is checked at run time on every operation sequence of length <= 5 over 4 keys, maxsize 0..3 "
      "(transparency of results and exceptions; recency-list representation invariant; eviction policy deliberately not a clause).",
      note="Not decided by this technique: thread interleavings; LRU mode is bounded only (unused by make_converter); id() uniqueness among live objects is CPython's guarantee (assumed).")
claim('C11', "UnionConverter.try_convert/collect_errors/into_data/construct/__init__ proved with inductive invariants: accepts iff some member accepts, result is the image under "
      "the left-most accepting member, diagnostic node has one child per member in declaration order, serialisation by the first accepting member; make_converter's union branch "
      "threads the handlers; type-variable substitution keeps union member order (bounded).",
      note="constructor assumed total; flatten_union_args assumed (recursive generator).")
claim('C12', "TaggedUnionConverter __init__ (tag map injective, duplicates refused) / try_convert / collect_errors / into_data proved for the three layouts against one "
      "layout-generic specification; Tagged._converter wiring proved.")
claim('C13', "ConditionalConverter proved (predicate on the CONVERTED value, raising predicate = failed condition, value unchanged, into_data ignores it); stock conditions "
      "(table obligations on the real lambdas), val_range / len_range (inclusive, absent bound unrestricted), all/any/not/&/| and the bundling of several conditions in "
      "_annotated_converter proved via definitional summaries of the closures.",
      note="comparisons on opaque values are total in the model; floats are not interpreted (NaN / inf behaviour of Finite rests on math.isfinite).")
claim('C14', "Generated __init__ proved (converted or verbatim arguments, defaults, fresh factory products, set-field record exactly the supplied fields, hook called once and "
      "only on a complete instance); from_dict_unchecked / make_unchecked proved; the mapping and sequence data paths proved to build the instance from converted values, defaults "
      "and the exact record. BOUNDED: construct.bounded and data_paths.bounded compare constructor and data paths on pool classes (type-exact values, record, fresh defaults).",
      note="Signature.bind is assumed (stdlib); default factories assumed not to raise; sharing/freshness of factory products is not expressible (values are abstract).")
claim('C15', "PaneConverter: __init__ (input-name map), layout gate, struct decision table, tuple positional binding with length bounds, output layout/names/exclusion proved over "
      "a symbolic field list; FieldSpec.make_field (derivation of input names and output name) proved.",
      note="positional bounds computed by _process are checked by the bounded class-hierarchy contract, not symbolically.")
claim('C16', "Generated __eq__ / _pane_ord / __hash__ proved (class modulo generic parameters + compare-fields; lexicographic order consistent with equality; hash of exactly "
      "the hash-fields tuple); the hash rule table proved equal to the standard-library table (16 rows, exhaustive); from_dict_unchecked keeps the set-field record. BOUNDED: that the stored record is the instance's own set, not the caller's (object identity of .copy() is not "
      "modelled symbolically), is a run-time contract over every pool class x four records.",
      note="_maybe_make_hash proved to apply the table entry; documented class options proved accepted (signature obligation); the ordering wrappers proved to be the sign of "
           "_pane_ord; field() proved to default hash to compare; __setattr__/__delattr__/__copy__/__deepcopy__/__replace__/__repr__/dict proved against their specifications.")
claim('C17', "Option inheritance proved (PaneOptions.replace, __init_subclass__: a passed option overrides, an absent one is inherited, incl. class handlers); field merge over the MRO, "
      "override in place, keyword-only reordering, signature order, type-variable substitution and enforcement are decided by BOUNDED run-time contracts over a pool of class hierarchies.",
      note="bounded part never counted as proved; typing.Generic bookkeeping is outside the engine (one open finding: a field typed with a subscripted generic dataclass is not substituted).")
claim('C18', "Precedence proved on make_converter (special forms, call-level then class-local handlers, HasConverter, scalar table, registered global handlers, structural built-ins; "
      "a deferring handler is skipped), handler normalisation (_process: mapping form matches only the exact unparameterised type), PaneConverter.__init__ (own class handlers before "
      "enclosing ones, field converter first), handler threading through every composite constructor and every into_data.")
claim('C08', "Totality proved: the six print_error bodies and ErrorNode.__str__ never raise under the tree-shape invariant (a duplicate-key node is never rendered "
      "inside a sum: proved as a call-site precondition). Completeness of the text (path components in nesting order, leaf expectations, missing / extra / duplicate "
      "names, offending value, cause message, determinism) is decided by a BOUNDED run-time contract on every error tree the witness pool produces.",
      note="termination of the chain-fusing loop is not proved (finite trees assumed); cross-process set ordering is not covered; the bounded part is never counted as proved.")
claim('C19', "Composition and ownership proved: readers = load then from_data(ty, custom), writers = into_data(obj, ty, custom) then dump with every formatting option passed "
      "by name, from_yaml_all converts the whole document list as List[ty]; open_file opens paths itself and hands caller streams back in a null context (same object); "
      "dataclass convenience methods (from_json/yaml/yaml_all, from_jsons/yamls, write_json/write_yaml) delegate with ty = the class, the same format and every option. "
      "The composed round trip over sinks x options x values, and multi-document YAML from streams and paths, are BOUNDED run-time contracts.",
      note="json / PyYAML load(dump(x)) == x is the assumed dependency contract (exercised, not proved); bounded part never counted as proved.")
claim('C20', "BOUNDED: canonical spelling, idempotence, reversibility and refusal clauses of rename_field evaluated at run time on every name of 1-3 words over a 4-word "
      "vocabulary x 5 styles, and on names with leading/trailing/doubled separators.",
      technique='run-time evaluation of sidecar contracts on the real function over an exhaustively enumerated finite domain (bounded stand-in; strings are outside the symbolic engine)')

LEVELS = {'C20': 'exploration'}


def main():
    props = [json.loads(l) for l in open(os.path.join(HERE, 'properties.jsonl'))]
    checks, na = [], []
    for p in props:
        pid = p['id']
        if pid in CLAIMS:
            text, tech, ref, note = CLAIMS[pid]
            checks.append({
                'property_id': pid,
                'quick_cmd': f'python3-vt check.py {pid} --tier quick',
                'thorough_cmd': f'python3-vt check.py {pid} --tier thorough',
                'evidence_file': f'/verif/evidence/{pid}.json',
                'replay_cmd_template': 'python3-vt check.py --replay {path}',
                'engine': 'pvc',
                'level_claimed': {'category': LEVELS.get(pid, 'proof'), 'text': text, 'design_ref': ref},
                'level_note': TRUST + (' ' + note if note else ''),
                'technique': tech,
            })
        else:
            na.append({'property_id': pid, 'reason': NA.get(pid, 'contracts for the functions this property depends on are not written yet (build in progress)')})
    m = {
        'version': 1,
        'setup_cmd': "python3-vt -c 'import z3, sys; sys.path.insert(0, \"/verif\"); import pvc.engine' && /venv/bin/python -c 'import pane'",
        'hooks': {'guard': 'PANE_VERIF', 'enable': 'no source hooks: contracts are sidecar files under /verif/contracts keyed by qualified function name',
                  'baseline_off_cmd': 'cd /repo && /venv/bin/python -m pytest -ra -q -p no:cacheprovider --timeout=900 --continue-on-collection-errors',
                  'source_commits': [], 'add_only': True},
        'engines': [{'name': 'pvc', 'path': '/verif/pvc', 'serves_properties': sorted(CLAIMS),
                     'kind_free_text': 'verification-condition generator for Python written for this task: re-reads /repo/pane with ast on every run, '
                                       'symbolically executes the functions under sidecar contract, discharges each condition with z3'}],
        'checks': checks,
        'not_applicable': na,
        'notes': 'See DESIGN.md. exit codes: 0 held / 1 VIOLATION / 2 undecided / 3 checker error.',
    }
    json.dump(m, open(os.path.join(HERE, 'MANIFEST.json'), 'w'), indent=1)
    json.dump(LEVELS, open(os.path.join(HERE, 'levels.json'), 'w'), indent=1)
    print('claimed', sorted(CLAIMS), 'not claimed', [x['property_id'] for x in na])


NA = {}

if __name__ == '__main__':
    main()
