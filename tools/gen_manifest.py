"""Regenerate /verif/MANIFEST.json from the table below (claimed properties) + properties.jsonl."""
import json
import os

HERE = os.path.dirname(os.path.dirname(os.path.abspath(__file__)))

TRUST = ("Trusted base: the pvc engine itself (ast -> symbolic execution -> z3; cross-checked by seeded faults and a native run-time "
         "evaluation of the same contracts on the real code); z3 (python wheel 5.1, Debian 4.8.12 as second back end); the IConv interface contract for "
         "child/user converters; user callables deterministic and non-mutating; Python == modelled as identity of abstract values; "
         "class lattice read from CPython on every run; structural induction over the converter tree is a meta-argument. "
         "Per-function assumptions are listed in evidence coverage.trusted_base.")

CLAIMS = {
    # id: (text, technique, design_ref, extra note)
}


def claim(pid, text, note='', technique='contract-based deductive verification: sidecar contracts on the real functions, VCs from the AST by symbolic execution, discharged by z3',
          ref='DESIGN.md section 9'):
    CLAIMS[pid] = (text, technique, ref, note)


claim('C01', "Every try_convert under contract returns iff the class acceptance predicate (written from the documented element-wise rules) holds and "
      "returns the specified image; Converter.convert is proved against the interface contract. Unbounded in nesting depth, container length, number of "
      "members/fields (loop invariants / comprehension summaries, no unrolling).",
      note="Not yet under contract: make_converter dispatch table, NestedSequenceConverter/numpy, DatetimeConverter.")
claim('C02', "Kind gates (data_is_sequence / data_is_mapping), the scalar allowed-kinds gate and the dataclass layout gate are proved; every composite passes "
      "each element unchanged to the element converter (acceptance predicates quantify over acc(child, element)), so the embedding-context dimension collapses.")
claim('C03', "For each converter class, try_convert (returns iff ACC) and collect_errors (None iff ACC) are proved against the SAME acceptance predicate; "
      "Converter.convert is proved never to reach its RuntimeError branch.",
      note="PaneConverter: the two construction paths are assumed to agree on __post_init__ failure (listed).")
claim('C04', "Exceptional postconditions: only ParseInterrupt leaves a try_convert, nothing leaves a collect_errors, only ConvertError leaves convert; every "
      "may-raise operation (lookups with unhashable keys, user callables, stdlib constructors, attribute access on foreign objects) forks a raising path "
      "that must be caught or infeasible.")
claim('C07', "Tree-shape postconditions of every composite diagnostic pass: children keyed by exactly the rejected positions/keys, each child equal to the "
      "element converter's own tree, missing/extra exact, union children one per member in order, leaves record the offending value.")
claim('C09', "modifies-nothing frame condition on every function under contract: a mutating operation is admitted only on a value created inside the function "
      "(provenance check during symbolic execution); any mutation of a caller-owned object is a failing 'frame' obligation.")
claim('C11', "UnionConverter.try_convert/collect_errors/construct proved with inductive invariants: accepts iff some member accepts, result is the image under "
      "the left-most accepting member, diagnostic node has one child per member in declaration order.",
      note="constructor assumed total; union flattening in make_converter not yet under contract.")
claim('C12', "TaggedUnionConverter try_convert/collect_errors/into_data proved for the three layouts against one layout-generic specification (extract tag and "
      "body, look the tag up, delegate to that variant only); unhashable and absent tags are rejections.",
      note="tag-map uniqueness in __init__ not yet under contract.")
claim('C13', "ConditionalConverter proved: accepts iff the inner type accepts and the predicate returns truthy without raising ON THE CONVERTED VALUE; value "
      "returned unchanged; raising predicate is a failed condition with cause; into_data ignores the condition.",
      note="stock conditions / combinators in annotations.py not yet under contract.")
claim('C15', "PaneConverter: layout gate, struct decision table (unknown / duplicate / missing / extras allowed), tuple positional binding to the constructor "
      "fields with length bounds, proved for both passes over a symbolic field list under the class invariant wf_Pane.",
      note="field-name derivation (FieldSpec.make_field) and PaneConverter.__init__ (field_map construction) not yet under contract.")


def main():
    props = [json.loads(l) for l in open(os.path.join(HERE, 'properties.jsonl'))]
    checks, na = [], []
    for p in props:
        pid = p['id']
        if pid in CLAIMS:
            text, tech, ref, note = CLAIMS[pid]
            checks.append({
                'property_id': pid,
                'quick_cmd': f'python3-vt check.py {pid} --tier quick',
                'thorough_cmd': f'python3-vt check.py {pid} --tier thorough',
                'evidence_file': f'/verif/evidence/{pid}.json',
                'replay_cmd_template': 'python3-vt check.py --replay {path}',
                'engine': 'pvc',
                'level_claimed': {'category': 'proof', 'text': text, 'design_ref': ref},
                'level_note': TRUST + (' ' + note if note else ''),
                'technique': tech,
            })
        else:
            na.append({'property_id': pid, 'reason': NA.get(pid, 'contracts for the functions this property depends on are not written yet (build in progress)')})
    m = {
        'version': 1,
        'setup_cmd': "python3-vt -c 'import z3, sys; sys.path.insert(0, \"/verif\"); import pvc.engine' && /venv/bin/python -c 'import pane'",
        'hooks': {'guard': 'PANE_VERIF', 'enable': 'no source hooks: contracts are sidecar files under /verif/contracts keyed by qualified function name',
                  'baseline_off_cmd': 'cd /repo && /venv/bin/python -m pytest -ra -q -p no:cacheprovider --timeout=900 --continue-on-collection-errors',
                  'source_commits': [], 'add_only': True},
        'engines': [{'name': 'pvc', 'path': '/verif/pvc', 'serves_properties': sorted(CLAIMS),
                     'kind_free_text': 'verification-condition generator for Python written for this task: re-reads /repo/pane with ast on every run, '
                                       'symbolically executes the functions under sidecar contract, discharges each condition with z3'}],
        'checks': checks,
        'not_applicable': na,
        'notes': 'See DESIGN.md. exit codes: 0 held / 1 VIOLATION / 2 undecided / 3 checker error.',
    }
    json.dump(m, open(os.path.join(HERE, 'MANIFEST.json'), 'w'), indent=1)
    print('claimed', sorted(CLAIMS), 'not claimed', [x['property_id'] for x in na])


NA = {}

if __name__ == '__main__':
    main()
