#!/bin/bash
# run every registered quick check on the unchanged tree; all must exit 0 with valid evidence
cd /verif
fail=0
for p in $(python3 -c "import json; print(' '.join(c['property_id'] for c in json.load(open('MANIFEST.json'))['checks']))"); do
  rm -f evidence/$p.json
  out=$(python3-vt check.py $p --tier quick 2>&1 | grep -v WARNING)
  rc=$?
  line=$(echo "$out" | grep "^$p \[")
  echo "$line rc=${PIPESTATUS[0]}"
  echo "$out" | grep -E "^VIOLATION|^UNDECIDED|^CHECKER-ERROR|^VACUITY" | head -3
  python3-vt -c "
import json, jsonschema, sys
ev=json.load(open('evidence/$p.json')); jsonschema.validate(ev, json.load(open('/root/.vp/EVIDENCE.schema.json')))
c=ev['coverage']
if ev['level']=='proof' and c['obligations']!=c['discharged']: print('  MISMATCH obligations', c['obligations'], c['discharged'])
" || fail=1
done
exit $fail
