"""Record, for every function under contract, how many for/while statements it has on the tree the contracts were written for
(contracts/loops.json) and which parameters it has (contracts/signatures.json: a parameter added later, with a default, is taken at its
default when the function is verified, and a call that passes it is 'needs contract'). Invariants are keyed by loop ordinal; if a later tree has a different number of loops in a function, the
ordinals no longer identify the loops the invariants were written for, and failing obligations of that function are reported as
'undecided - invariants need re-anchoring', not as violations.  Re-run after (re)writing invariants:  python3-vt tools/gen_loops.py"""
import ast, json, os, sys
HERE = os.path.dirname(os.path.dirname(os.path.abspath(__file__)))
sys.path.insert(0, HERE)
from pvc.repoindex import RepoIndex      # noqa
from pvc.engine import Sidecar           # noqa


def loop_headers(fnode):
    out, stack = [], list(reversed(fnode.body))
    while stack:
        nd = stack.pop()
        if isinstance(nd, (ast.FunctionDef, ast.Lambda, ast.ClassDef)):
            continue
        if isinstance(nd, ast.For):
            out.append(['for', ast.unparse(nd.target), ast.unparse(nd.iter)])
        elif isinstance(nd, ast.While):
            out.append(['while', '', ast.unparse(nd.test)])
        stack.extend(reversed([c for c in ast.iter_child_nodes(nd) if isinstance(c, (ast.stmt, ast.ExceptHandler))]))
    return out


if __name__ == '__main__':
    repo = sys.argv[1] if len(sys.argv) > 1 else '/repo'
    idx = RepoIndex(repo)
    side = Sidecar(os.path.join(HERE, 'contracts'))
    data, sigs = {}, {}
    for k, con in sorted(side.contracts.items()):
        fi = idx.funcs.get(k)
        if fi is not None and not con.bounded and not con.trusted:
            data[k] = loop_headers(fi.node)
    # parameter names of every function under contract (also trusted ones: they are applied at call sites)
    for k, con in sorted(side.contracts.items()):
        fi = idx.funcs.get(k)
        if fi is not None and not isinstance(fi.node, ast.Lambda):
            a = fi.node.args
            sigs[k] = [p.arg for p in a.posonlyargs + a.args + a.kwonlyargs] + ([a.vararg.arg] if a.vararg else []) + ([a.kwarg.arg] if a.kwarg else [])
    json.dump(data, open(os.path.join(HERE, 'contracts', 'loops.json'), 'w'), indent=0, sort_keys=True)
    json.dump(sigs, open(os.path.join(HERE, 'contracts', 'signatures.json'), 'w'), indent=0, sort_keys=True)
    print(len(data), 'functions;', sum(1 for v in data.values() if v), 'with loops;', len(sigs), 'signatures')
