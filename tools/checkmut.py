"""End-to-end: for each seeded change, run the registered check of its property on a scratch copy.
usage: checkmut.py [names...]   (names: seeded dir names, e.g. C03_1, or catalogue patches m01_...)"""
import sys, os, json, shutil, subprocess, tempfile, glob, time
from concurrent.futures import ThreadPoolExecutor

HERE = os.path.dirname(os.path.dirname(os.path.abspath(__file__)))     # the /verif tree this script belongs to (a vp-run snapshot works too)

def one(n):
    if os.path.isdir(f'{HERE}/seeded/{n}'):
        meta = json.load(open(f'{HERE}/seeded/{n}/meta.json')); props = [meta['property']]
        patch = f'{HERE}/seeded/{n}/patch_rebased.diff' if os.path.exists(f'{HERE}/seeded/{n}/patch_rebased.diff') else f'{HERE}/seeded/{n}/patch.diff'
    else:
        meta = json.load(open(f'{HERE}/mutants/{n}.json')); props = meta['breaks'][:1]
        patch = f'{HERE}/mutants/{n}.patch'
    d = tempfile.mkdtemp(prefix='pvcchk_')
    try:
        shutil.copytree('/repo/pane', os.path.join(d, 'pane'))
        p = subprocess.run(['patch', '-p1', '-s', '-i', patch], cwd=d, capture_output=True, text=True)
        if p.returncode != 0:
            return n, props, 'PATCH-FAILED', ''
        out = []
        for prop in props:
            t = time.time()
            # evidence of a run against a changed copy must not replace the evidence of the real tree
            r = subprocess.run(['python3-vt', f'{HERE}/check.py', prop, '--repo', d], capture_output=True, text=True, cwd=HERE,
                               env={**os.environ, 'PVC_EVIDENCE_DIR': os.path.join(d, '_evidence'), 'PVC_NO_MUTANTS': '1',
                                    'PVC_CACHE': os.environ.get('PVC_CACHE', os.path.join(HERE, '.cache', 'pvc'))})
            vio = [l for l in r.stdout.splitlines() if l.startswith('VIOLATION')]
            fo = [l.strip() for l in r.stdout.splitlines() if 'failed obligation' in l or l.startswith('UNDECIDED')]
            out.append((prop, r.returncode, len(vio), any('no-failing-input-found' not in v for v in vio), round(time.time() - t), fo[:2]))
        return n, props, 'RAN', out
    finally:
        shutil.rmtree(d)

names = sys.argv[1:] or sorted(n for n in os.listdir(f'{HERE}/seeded') if os.path.isdir(f'{HERE}/seeded/{n}')) + sorted(os.path.basename(p)[:-6] for p in glob.glob(f'{HERE}/mutants/*.patch'))
with ThreadPoolExecutor(4) as ex:
    for n, props, st, out in ex.map(one, names):
        if st != 'RAN':
            print(f'{n}: {st}'); continue
        for prop, rc, nv, has_input, secs, fo in out:
            verdict = {0: 'MISSED', 1: 'DETECTED', 2: 'UNDECIDED', 3: 'ERROR'}.get(rc, rc)
            print(f'{n}: {prop} {verdict} violations={nv} with_input={has_input} ({secs}s) {fo[0][:150] if fo else ""}', flush=True)
