"""Create a mutant patch: mkmut.py <name> <file-relative-to-repo> <<< JSON {"old":..., "new":..., "breaks":[...], "note":...}"""
import sys, json, os, subprocess, tempfile, shutil
name, rel = sys.argv[1], sys.argv[2]
spec = json.load(sys.stdin)
src = open(os.path.join('/repo', rel)).read()
assert src.count(spec['old']) == 1, f"old text occurs {src.count(spec['old'])} times"
d = tempfile.mkdtemp()
try:
    os.makedirs(os.path.join(d, 'a', os.path.dirname(rel))); os.makedirs(os.path.join(d, 'b', os.path.dirname(rel)))
    open(os.path.join(d, 'a', rel), 'w').write(src)
    open(os.path.join(d, 'b', rel), 'w').write(src.replace(spec['old'], spec['new']))
    out = subprocess.run(['diff', '-u', os.path.join('a', rel), os.path.join('b', rel)], cwd=d, capture_output=True, text=True).stdout
finally:
    shutil.rmtree(d)
os.makedirs('/verif/mutants', exist_ok=True)
open(f'/verif/mutants/{name}.patch', 'w').write(out)
meta = {k: v for k, v in spec.items() if k not in ('old', 'new')}
meta['file'] = rel
json.dump(meta, open(f'/verif/mutants/{name}.json', 'w'), indent=1)
print('wrote', name, len(out.splitlines()), 'lines')
