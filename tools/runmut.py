"""Apply each mutant patch to a scratch copy of /repo/pane and run pvc on it."""
import sys, os, json, shutil, subprocess, tempfile, glob, time
sys.path.insert(0, '/verif')
from pvc.run import run

def main():
    names = sys.argv[1:] or (sorted(os.path.basename(p)[:-6] for p in glob.glob('/verif/mutants/*.patch')) +
                             sorted('seeded:' + os.path.basename(os.path.dirname(p)) for p in glob.glob('/verif/seeded/*/patch.diff')))
    base = {}
    basefail = set()
    for r in run('/repo', '/verif/contracts'):
        for o in r['obligations']:
            if o['verdict'] != 'discharged':
                basefail.add((o['func'], o['kind'], o['origin']))
        if r['status'] != 'ok':
            base[(r['key'], 'status', '')] = r['status']
    for n in names:
        if n.startswith('seeded:'):
            meta = json.load(open(f'/verif/seeded/{n[7:]}/meta.json'))
            meta['breaks'] = [meta.get('property')]
            patch = f'/verif/seeded/{n[7:]}/patch.diff'
        else:
            meta = json.load(open(f'/verif/mutants/{n}.json'))
            patch = f'/verif/mutants/{n}.patch'
        d = tempfile.mkdtemp(prefix='pvcmut_')
        try:
            shutil.copytree('/repo/pane', os.path.join(d, 'pane'))
            p = subprocess.run(['patch', '-p1', '-s', '-i', patch], cwd=d, capture_output=True, text=True)
            if p.returncode != 0:
                print(n, 'PATCH FAILED', p.stdout, p.stderr); continue
            t = time.time()
            res = run(d, '/verif/contracts')
            new = []
            for r in res:
                if r['status'] != 'ok' and base.get((r['key'], 'status', '')) != r['status']:
                    new.append(('STATUS ' + r['status'], r['key'], r.get('error', '')[:100]))
                for o in r['obligations']:
                    if o['verdict'] != 'discharged' and (o['func'], o['kind'], o['origin']) not in basefail:
                        new.append((o['verdict'], o['id'], ','.join(o['props'])))
            props = sorted({p for v, i, ps in new if v == 'refuted' for p in ps.split(',')})
            verdict = 'KILLED' if any(v == 'refuted' for v, _, _ in new) else ('UNDECIDED' if new else 'SURVIVED')
            print(f"{n}: {verdict} breaks={meta.get('breaks')} refuted_props={props} ({time.time()-t:.1f}s)")
            for v, i, ps in new[:6]:
                print('     ', v, i, ps)
        finally:
            shutil.rmtree(d)
main()
