#!/bin/bash
# Confirm a sub-agent change: fresh worktree of /repo HEAD, demo.py before/after the patch, baseline tests; on success copies patch+demo to seeded/<name>/
# usage: confirm.sh <wt> <name> <prop>
wt=$1; name=$2; prop=$3
set +e
test -s $wt/patch.diff
sc=$(mktemp -d /tmp/conf_XXXX)
git -C /repo worktree add --detach $sc HEAD -q
cp $wt/demo.py $sc/demo.py
cd $sc
PYTHONPATH=$sc /venv/bin/python demo.py >/dev/null 2>&1; clean=$?
git apply $wt/patch.diff
set +e
PYTHONPATH=$sc /venv/bin/python demo.py > $sc/demo.out 2>&1; patched=$?
tests=$(PYTHONPATH=$sc /venv/bin/python -m pytest -q -p no:cacheprovider tests 2>&1 | tail -1)
echo "clean=$clean patched=$patched tests=$tests"; tail -2 $sc/demo.out
if [ "$clean" = 0 ] && [ "$patched" != 0 ] && echo "$tests" | grep -q "9 failed, 218 passed"; then
  mkdir -p /verif/seeded/$name; cp $wt/patch.diff $wt/demo.py /verif/seeded/$name/
  echo CONFIRMED
fi
cd /; git -C /repo worktree remove --force $sc
