"""Merge the lines of further tools/checkmut.py logs into seeded/CATCHES.md (rows of changes already listed are replaced).
usage: append_catches.py <log> [<log> ...]"""
import sys, os, re, json
HERE = os.path.dirname(os.path.dirname(os.path.abspath(__file__)))
path = os.path.join(HERE, 'seeded', 'CATCHES.md')
lines = open(path).read().split('\n')
head = lines[:lines.index('|---|---|---|---|---|---|---|') + 1]
rows = {l.split('|')[1].strip(): l for l in lines[len(head):] if l.startswith('| ')}
for p in sys.argv[1:]:
    for line in open(p, errors='replace'):
        m = re.match(r'^(\S+): (C\d\d) (DETECTED|MISSED|UNDECIDED|ERROR)(.*)$', line.strip())
        if not m:
            continue
        name, prop, verdict, rest = m.groups()
        ob = re.search(r'failed obligation (\S+?): ', rest)
        secs = re.search(r'\((\d+)s\)', rest)
        wit = 'concrete input' if 'with_input=True' in rest else ('no-failing-input-found' if verdict == 'DETECTED' else '')
        mp = os.path.join(HERE, 'seeded', name, 'meta.json')
        summ = (json.load(open(mp)).get('summary', '') if os.path.exists(mp) else '')[:140].replace('|', '/').replace('\n', ' ')
        rows[name] = f"| {name} | {prop} | {verdict} | `{ob.group(1) if ob else ''}` | {wit} | {secs.group(1) if secs else ''} | {summ} |"
cnt = {}
for l in rows.values():
    v = l.split('|')[3].strip().split(' ')[0]
    cnt[v] = cnt.get(v, 0) + 1
out = head + [rows[k] for k in sorted(rows)] + ['', 'Totals: ' + ', '.join(f'{k}: {v}' for k, v in sorted(cnt.items()))]
open(path, 'w').write('\n'.join(out) + '\n')
print(out[-1])
